// kv-mount: src/sharded.rs
// kv-needs: kfs
//
// sharded::Cache::{get, touch, set, put} on KFS.  The key's two shard ids are fixed per harness
// (stub of `shard_ids` returning constants) so that every path is syntactically constant; that
// the real `shard_ids` is the documented function of (hash, secondary hash, n) for ALL hashes is
// engine M's obligation `c12_mapping`.  `format_id`, `Shard`, load estimates, `update_estimate`,
// `sort_by_load`, `other_shard_id`, maintenance of a second shard all run for real.
use super::*;
use crate::kv_kfs as kfs;
use crate::kv_kfs::kfs_harness;

pub fn ids_01(_c: &Cache, _k: Key) -> (usize, usize) {
    (0, 1)
}
pub fn ids_10(_c: &Cache, _k: Key) -> (usize, usize) {
    (1, 0)
}
pub fn random_2(_c: &Cache) -> usize {
    2
}

const SR: u8 = 0; // sharded root "/s"

fn dir_of(shard: usize) -> u8 {
    kfs::d_shard(SR, shard as u8)
}

fn symbolic_mount() {
    kfs::k().policy = kani::any();
    kani::assume(kfs::k().policy <= 2);
    kfs::k().gran_s = kani::any();
    kani::assume(kfs::k().gran_s <= 2);
}

/// Arbitrary valid sharded tree over shards 0..2: each shard directory may be missing; the key
/// lives in at most one of its two candidate shards (the simulation relation of C11).
fn sharded_pre(p: usize, s: usize) -> u8 {
    let mut sh = 0;
    while sh < 3 {
        if kani::any() {
            kfs::mkdir(dir_of(sh));
        }
        sh += 1;
    }
    let loc: u8 = kani::any();
    kani::assume(loc <= 2);
    // 0: absent, 1: in the primary candidate, 2: in the secondary candidate
    if loc == 1 {
        kfs::mkdir(dir_of(p));
        kfs::install(dir_of(p), kfs::S_A, kfs::any_published(kfs::S_A, 50));
    } else if loc == 2 {
        kfs::mkdir(dir_of(s));
        kfs::install(dir_of(s), kfs::S_A, kfs::any_published(kfs::S_A, 50));
    }
    loc
}

/// Concrete location of the key (0 absent, 1 primary, 2 secondary); shard directories may be missing.
fn sharded_pre_at(p: usize, s: usize, loc: u8) {
    let mut sh = 0;
    while sh < 3 {
        if kani::any() {
            kfs::mkdir(dir_of(sh));
        }
        sh += 1;
    }
    if loc == 1 {
        kfs::mkdir(dir_of(p));
        kfs::install(dir_of(p), kfs::S_A, kfs::any_published(kfs::S_A, 50));
    } else if loc == 2 {
        kfs::mkdir(dir_of(s));
        kfs::install(dir_of(s), kfs::S_A, kfs::any_published(kfs::S_A, 50));
    }
}

fn new_cache() -> Cache {
    let cap: usize = kani::any();
    let c = Cache::new(kfs::path_of(kfs::D_S, kfs::NONE), 3, cap);
    // independent handles disagree on load: the estimates are arbitrary
    let mut i = 0;
    while i < 3 {
        c.load_estimates[i].store(kani::any(), Relaxed);
        i += 1;
    }
    c
}

fn sharded_read_case(touch: bool, p: usize, s: usize) {
    kfs::reset();
    symbolic_mount();
    let loc = sharded_pre(p, s);
    let cache = new_cache();
    let key = Key::new(kfs::KEY_A, kani::any(), kani::any());
    let st = kfs::k();
    kfs::begin_op(if touch { kfs::OP_SHARDED_TOUCH } else { kfs::OP_SHARDED_GET }, p as i64, s as i64, 0);
    if touch {
        let r = cache.touch(key);
        assert!(r.is_ok(), "KV-C05: touch succeeds");
        assert!(*r.as_ref().unwrap() == (loc != 0), "KV-C11: touch finds the entry in whichever of its two shards holds it");
        assert!(st.calls <= 2 && st.open_peak == 0, "KV-C20: touch issues at most one call per candidate shard");
        std::mem::forget(r);
    } else {
        let r = cache.get(key);
        assert!(r.is_ok(), "KV-C05: get succeeds");
        let hit = r.as_ref().unwrap().is_some();
        assert!(hit == (loc != 0), "KV-C11: get finds the entry in whichever of its two shards holds it");
        if let Some(f) = r.as_ref().unwrap() {
            let n = kfs::inode_of(f);
            assert!(n.complete && n.key_tag == kfs::S_A && n.content == 50, "KV-C01: the value returned is the one stored for the key");
            assert!(!kfs::fd_of(f).writable && kfs::fd_of(f).off == 0, "KV-C19: read-only handle at offset 0");
            assert!(kfs::accessed(&n), "KV-C09: after a get the entry is recognised as recently used");
        }
        assert!(st.kind_calls[kfs::C_OPEN as usize] <= 2, "KV-C20: at most two open attempts (one per candidate shard) for a lookup");
        assert!(st.open_peak <= 1 && st.open_now == hit as u8, "KV-C20: nothing but the returned handle stays open");
        std::mem::forget(r);
    }
    // probe order and confinement: only the two candidate shards are consulted, primary first
    let first_kind = if touch { kfs::C_UTIMES } else { kfs::C_OPEN };
    assert!(st.trace_n >= 1 && st.trace_kind[0] == first_kind && st.trace_dir[0] == dir_of(p),
            "KV-C12: the primary candidate shard is probed first");
    if st.trace_n >= 2 && st.trace_kind[1] == first_kind {
        assert!(st.trace_dir[1] == dir_of(s), "KV-C12: the second probe goes to the secondary candidate shard");
    }
    let mut d = 0;
    while d < kfs::ND {
        assert!(!st.dir[d].mutated && !st.dir[d].created_by_us, "KV-C15: lookups never create, delete or rename anything");
        d += 1;
    }
    kani::cover!(loc == 2, "entry found in the secondary shard");
    kani::cover!(loc == 0, "miss");
}

kfs_harness! {
    #[kani::unwind(48)]
    #[kani::stub(crate::sharded::Cache::shard_ids, ids_01)]
    fn sharded_get_01() {
        sharded_read_case(false, 0, 1);
    }
}

kfs_harness! {
    #[kani::unwind(48)]
    #[kani::stub(crate::sharded::Cache::shard_ids, ids_10)]
    fn sharded_get_10() {
        sharded_read_case(false, 1, 0);
    }
}

kfs_harness! {
    #[kani::unwind(48)]
    #[kani::stub(crate::sharded::Cache::shard_ids, ids_01)]
    fn sharded_touch_01() {
        sharded_read_case(true, 0, 1);
    }
}

/// `loc` and the load pattern are concrete per harness so that the shard chosen by the write (and
/// with it every path) is syntactically constant: a merged (symbolic) shard directory makes std's
/// path parser unwind to its bound (measured: 1 h time-outs).  `heavy_primary`: the handle believes
/// the primary candidate is the more loaded one (so the candidates are considered in swapped order).
fn sharded_write_case(put: bool, p: usize, s: usize, loc: u8, heavy_primary: bool, env: u8, fault: bool) {
    kfs::reset();
    symbolic_mount();
    sharded_pre_at(p, s, loc);
    kfs::mkdir(kfs::D_X);
    let src = kfs::user_source(kfs::D_X, 0, kfs::S_A, 9, true);
    let cap: usize = kani::any();
    let cache = Cache::new(kfs::path_of(kfs::D_S, kfs::NONE), 3, cap);
    if heavy_primary {
        cache.load_estimates[p].store(200, Relaxed);
    }
    let key = Key::new(kfs::KEY_A, kani::any(), kani::any());
    kfs::k().env = env;
    if env != kfs::ENV_NONE {
        let mut sh = 0;
        while sh < 3 {
            kfs::k().dir[dir_of(sh) as usize].shared = true;
            sh += 1;
        }
    }
    if fault {
        kfs::k().fail_at = kani::any();
        kfs::k().fail_errno = kani::any();
        let e = kfs::k().fail_errno;
        kani::assume(e == kfs::EIO || e == kfs::EACCES || e == kfs::ENOSPC || e == kfs::ESTALE || e == kfs::EXDEV);
    }
    let from = kfs::path_of(kfs::D_X, 0);
    kfs::begin_op(if put { kfs::OP_SHARDED_PUT } else { kfs::OP_SHARDED_SET }, p as i64, s as i64, cache.shard_capacity.min(1_000_000) as i64);
    let r = if put { cache.put(key, &from) } else { cache.set(key, &from) };
    let st = kfs::k();
    if !fault {
        assert!(r.is_ok(), "KV-C05: a sharded write completes whatever other participants do, including into missing shard directories");
    }
    let in_p = kfs::bound(dir_of(p), kfs::S_A);
    let in_s = kfs::bound(dir_of(s), kfs::S_A);
    assert!(kfs::bound(dir_of(3 - p - s), kfs::S_A) == kfs::NONE, "KV-C12: an entry is only ever stored in one of its two candidate shards");
    assert!(st.open_now == 0, "KV-C20: nothing stays open after a write");
    if r.is_ok() {
        assert!(kfs::bound(kfs::D_X, 0) == kfs::NONE, "KV-C11: a successful set or put consumes its source file");
        if env == kfs::ENV_NONE && !st.failed {
            assert!(in_p == kfs::NONE || in_s == kfs::NONE, "KV-C11: a sharded cache never holds two copies of one key");
            let maintained = st.kind_calls[kfs::C_READDIR as usize] > 0;
            let cur = if in_p != kfs::NONE { in_p } else { in_s };
            if !maintained {
                assert!(cur != kfs::NONE, "KV-C11: the key is present after a write (no maintenance ran)");
            }
            if cur != kfs::NONE {
                if !put || loc == 0 {
                    assert!(cur == src, "KV-C11: set overwrites, put inserts when absent");
                } else {
                    assert!(st.ino[cur as usize].content == 50, "KV-C04: put never changes an existing entry");
                }
                if loc == 2 {
                    assert!(in_s != kfs::NONE, "KV-C11: a key that lives in its alternate shard stays there (no second copy)");
                }
            }
        }
    } else {
        assert!(st.failed, "KV-C18: errors only when a filesystem call failed");
    }
    assert!(kfs::tree_valid(), "KV-C02: the tree is valid when the operation returns");
    kani::cover!(r.is_ok(), "write succeeded");
    if !heavy_primary && loc == 0 {
        kani::cover!(r.is_ok() && st.kind_calls[kfs::C_MKDIR as usize] > 0, "missing shard directory created on demand");
    }
    std::mem::forget(r);
}

macro_rules! sharded_write_harness {
    ($name:ident, $ids:ident, $put:expr, $p:expr, $s:expr, $loc:expr, $heavy:expr, $env:expr, $fault:expr) => {
        kfs_harness! {
            #[kani::unwind(48)]
            #[kani::stub(crate::sharded::Cache::shard_ids, $ids)]
            #[kani::stub(crate::sharded::Cache::random_shard_id, random_2)]
            #[kani::stub(crate::raw_cache::prune, crate::kv_kfs::spec_prune)]
            fn $name() {
                sharded_write_case($put, $p, $s, $loc, $heavy, $env, $fault);
                if $fault {
                    kani::cover!(kfs::k().failed, "fault fired");
                }
            }
        }
    };
}
// key absent, in its primary, in its secondary candidate; the handle's load estimates either all 0
// (as a fresh handle has) or claiming the primary is the heavier shard
sharded_write_harness!(sharded_set_absent, ids_01, false, 0, 1, 0, false, kfs::ENV_NONE, false);
sharded_write_harness!(sharded_set_in_secondary, ids_01, false, 0, 1, 2, false, kfs::ENV_NONE, false);
sharded_write_harness!(sharded_set_in_primary_heavy, ids_01, false, 0, 1, 1, true, kfs::ENV_NONE, false);
sharded_write_harness!(sharded_put_in_secondary, ids_10, true, 1, 0, 2, false, kfs::ENV_NONE, false);
sharded_write_harness!(sharded_put_absent_heavy, ids_01, true, 0, 1, 0, true, kfs::ENV_NONE, false);
sharded_write_harness!(sharded_set_absent_env, ids_01, false, 0, 1, 0, false, kfs::ENV_FULL, false);
sharded_write_harness!(sharded_put_absent_fault, ids_01, true, 0, 1, 0, false, kfs::ENV_NONE, true);

// ---- no maintenance due: a write is a constant number of calls and never lists a directory (C20) ----
kfs_harness! {
    #[kani::unwind(48)]
    #[kani::stub(crate::sharded::Cache::shard_ids, ids_01)]
    #[kani::stub(crate::sharded::Cache::random_shard_id, random_2)]
    #[kani::stub(crate::raw_cache::prune, crate::kv_kfs::spec_prune)]
    #[kani::stub(crate::trigger::PeriodicTrigger::event, crate::kv_kfs::s_trigger_event)]
    fn sharded_write_notrigger() {
        kfs::reset();
        kfs::k().trigger_mode = 1;
        sharded_pre_at(0, 1, 0);
        kfs::mkdir(kfs::D_X);
        let _src = kfs::user_source(kfs::D_X, 0, kfs::S_A, 9, true);
        // a large cache whose load estimates are far below capacity: no forced maintenance either
        let c = Cache::new(kfs::path_of(kfs::D_S, kfs::NONE), 3, 3000);
        let key = Key::new(kfs::KEY_A, kani::any(), kani::any());
        let from = kfs::path_of(kfs::D_X, 0);
        let put: bool = kani::any();
        kfs::begin_op(if put { kfs::OP_SHARDED_PUT } else { kfs::OP_SHARDED_SET }, 0, 1, 1000);
        let r = if put { c.put(key, &from) } else { c.set(key, &from) };
        assert!(r.is_ok(), "KV-C05: the write succeeds");
        let st = kfs::k();
        assert!(st.kind_calls[kfs::C_READDIR as usize] == 0 && st.kind_calls[kfs::C_DSTAT as usize] == 0,
                "KV-C20: outside maintenance a write never lists a directory (its cost does not depend on the number of entries)");
        assert!(st.calls <= 14, "KV-C20: outside maintenance a write issues a constant number of filesystem calls");
        assert!(st.open_peak == 0 && st.open_now == 0, "KV-C20: a sharded write opens no file");
        kani::cover!(st.kind_calls[kfs::C_MKDIR as usize] > 0, "write into a shard whose directory was missing");
        std::mem::forget(r);
    }
}

// ---- invalid names through the sharded front-end (C16) ------------------------------------------------
kfs_harness! {
    #[kani::unwind(48)]
    #[kani::stub(crate::sharded::Cache::shard_ids, ids_01)]
    #[kani::stub(crate::sharded::Cache::random_shard_id, random_2)]
    #[kani::stub(crate::raw_cache::prune, crate::kv_kfs::spec_prune)]
    fn sharded_invalid_names() {
        kfs::reset();
        kfs::mkdir(dir_of(0));
        kfs::mkdir(dir_of(1));
        kfs::mkdir(kfs::D_X);
        let ia = kfs::install(dir_of(1), kfs::S_A, kfs::any_published(kfs::S_A, 50));
        let src = kfs::user_source(kfs::D_X, 0, kfs::S_A, 9, true);
        let pre = kfs::k().ino[ia as usize];
        let c = Cache::new(kfs::path_of(kfs::D_S, kfs::NONE), 3, 0);
        let from = kfs::path_of(kfs::D_X, 0);
        let names = ["", ".x", "/x", "\\x"];
        let mut w = 0;
        while w < 4 {
            let key = Key::new(names[w], 1, 2);
            let g = matches!(c.get(key), Err(e) if e.kind() == std::io::ErrorKind::InvalidInput);
            let t = matches!(c.touch(key), Err(e) if e.kind() == std::io::ErrorKind::InvalidInput);
            let s = matches!(c.set(key, &from), Err(e) if e.kind() == std::io::ErrorKind::InvalidInput);
            let p = matches!(c.put(key, &from), Err(e) if e.kind() == std::io::ErrorKind::InvalidInput);
            assert!(g && t && s && p, "KV-C16: operations given an empty name, or one starting with '.', '/' or '\\', fail with InvalidInput");
            w += 1;
        }
        // the existence probe that precedes validation in set/put is a read; nothing may be modified
        assert!(kfs::mutating_calls() == 0, "KV-C16: an operation on an invalid name modifies nothing");
        let n = kfs::k().ino[ia as usize];
        assert!(kfs::bound(dir_of(1), kfs::S_A) == ia && kfs::bound(kfs::D_X, 0) == src && n.at_s == pre.at_s && n.at_ns == pre.at_ns && n.mt_s == pre.mt_s,
                "KV-C16: an operation on an invalid name modifies nothing");
        kani::cover!(true, "reachable");
    }
}

// ---- constructor clamping, naming, constants (C12) ---------------------------------------------
#[kani::proof]
#[kani::unwind(8)]
fn c12_new_clamps() {
    let n: usize = kani::any();
    kani::assume(n <= 3);
    let cap: usize = kani::any();
    let c = Cache::new(PathBuf::from("/s"), n, cap);
    assert!(c.num_shards == if n < 2 { 2 } else { n }, "KV-C12: fewer than two shards are treated as two");
    assert!(c.load_estimates.len() == c.num_shards, "KV-C12: one load estimate per shard");
    assert!(c.shard_capacity >= 1, "KV-C12: every shard has room for at least one file");
    kani::cover!(n == 0, "zero shards requested");
    std::mem::forget(c);
}

#[kani::proof]
#[kani::unwind(24)]
fn c12_format_id() {
    let id: usize = kani::any();
    kani::assume(id < (1 << 20));
    let s = format_id(id);
    let b = s.as_bytes();
    assert!(b.len() >= 12 && b.len() <= 13, "KV-C12: '.kismet_' followed by at least four hex digits");
    assert!(b[0] == b'.' && b[1] == b'k' && b[2] == b'i' && b[3] == b's' && b[4] == b'm' && b[5] == b'e' && b[6] == b't' && b[7] == b'_',
            "KV-C12: shard directories are named .kismet_<hex index>");
    // value of the hex suffix
    let mut v: usize = 0;
    let mut i = 8;
    while i < 13 {
        if i < b.len() {
            let c = b[i];
            let d = if c >= b'0' && c <= b'9' { (c - b'0') as usize } else if c >= b'a' && c <= b'f' { (c - b'a' + 10) as usize } else { 99 };
            assert!(d < 16, "KV-C12: lowercase hexadecimal digits");
            v = v * 16 + d;
        }
        i += 1;
    }
    assert!(v == id, "KV-C12: the suffix is the shard index");
    kani::cover!(id >= 0x10000, "five-digit index");
    std::mem::forget(s);
}

#[kani::proof]
fn c12_constants() {
    // const-evaluated by rustc from the real `new_keyed`; the expected values are computed
    // independently with Python's hashlib at check time (kv_gen.rs)
    assert!(PRIMARY_MIXER == MultiplicativeHash::new(crate::kv_gen::PRIMARY_MULT, crate::kv_gen::PRIMARY_ADD),
            "KV-C12: primary mixer = SHA-256(\"kismet: primary shard mixer\") bytes 0..8 | 1, bytes 8..16");
    assert!(SECONDARY_MIXER == MultiplicativeHash::new(crate::kv_gen::SECONDARY_MULT, crate::kv_gen::SECONDARY_ADD),
            "KV-C12: secondary mixer = SHA-256(\"kismet: secondary shard mixer\")");
    kani::cover!(true, "reachable");
}

kfs_harness! {
    #[kani::unwind(48)]
    #[kani::stub(crate::sharded::Cache::shard_ids, ids_01)]
    fn sharded_ops_sanity_twin() {
        sharded_read_case(false, 0, 1);
        assert!(false, "KV-SANITY: reachable end of harness");
    }
}
