// kv-mount: src/stack.rs
// kv-needs: kfs
// kv-with: readonly_ops
// kv-with: contracts
//
// Stacked caches (stack::Cache over plain/sharded writers and ReadOnlyCache readers) on KFS:
// lookup order and hit actions (C13), consistency checker (C14), read-only sides untouched (C15),
// durable-before-visible with auto_sync (C03), handles read-only at offset 0 and modes (C19),
// descriptor accounting (C20).  The real CacheBuilder builds every stack.
use super::*;
use crate::kv_kfs as kfs;
use crate::kv_kfs::kfs_harness;

// shapes
const W_NONE: u8 = 0;
const W_PLAIN: u8 = 1;
const W_SHARDED: u8 = 2;
// operations
const OP_GET: u8 = 0;
const OP_TOUCH: u8 = 1;
const OP_ENSURE: u8 = 2;
const OP_GOU: u8 = 3; // get_or_update with a symbolic judge
const OP_SET: u8 = 4;
const OP_PUT: u8 = 5;
const OP_SET_TEMP: u8 = 6;
const OP_PUT_TEMP: u8 = 7;
// checkers
const CK_NONE: u8 = 0;
const CK_BYTES: u8 = 1;
const CK_PANIC: u8 = 2;

const VAL_A: u8 = 50;
const VAL_B: u8 = 60;
const VAL_C: u8 = 70; // what populate writes

static mut JUDGE_SAW: u8 = 0; // 0: not called, 1: Primary, 2: Secondary
static mut JUDGE_CONTENT: u8 = 0;
static mut POPULATE_CALLS: u8 = 0;

static mut SHARDED_REACHED: bool = false;
// populate outcome / judge answer fixed by the harness (SYM: left symbolic)
static mut FIX_POP: u8 = SYM;
static mut FIX_ACTION: u8 = SYM;
pub fn ids_01(_c: &crate::sharded::Cache, _k: Key) -> (usize, usize) {
    unsafe { SHARDED_REACHED = true };
    (0, 1)
}
pub fn random_2(_c: &crate::sharded::Cache) -> usize {
    2
}

pub const SYM: u8 = 255; // content left symbolic

/// Content of one level for the key: 0 absent, VAL_A, VAL_B; `fixed == SYM` leaves it symbolic.
/// (Harnesses that go on to create temporary files fix it: a hit/miss merge in front of the
/// temp-file path made the whole run blow up in std's path parser; measured.)
fn level(dir: u8, readonly: bool, fixed: u8) -> u8 {
    kfs::mkdir(dir);
    kfs::k().dir[dir as usize].readonly_root = readonly;
    let c: u8 = if fixed == SYM { kani::any() } else { fixed };
    kani::assume(c == 0 || c == VAL_A || c == VAL_B);
    if c != 0 {
        kfs::install(dir, kfs::S_A, kfs::any_published(kfs::S_A, c));
    }
    c
}

fn snapshot(dir: u8) -> (u8, kfs::Inode) {
    let i = kfs::bound(dir, kfs::S_A);
    (i, if i != kfs::NONE { kfs::k().ino[i as usize] } else { kfs::INODE0 })
}

fn unchanged_but_atime(dir: u8, before: (u8, kfs::Inode)) {
    let st = kfs::k();
    let i = kfs::bound(dir, kfs::S_A);
    assert!(i == before.0, "KV-C15: nothing is created, deleted or renamed inside a read-only cache");
    assert!(!st.dir[dir as usize].mutated && !st.dir[dir as usize].created_by_us && !st.dir[(dir + 1) as usize].exists,
            "KV-C15: nothing is created inside a read-only cache (not even .kismet_temp)");
    if i != kfs::NONE {
        let n = st.ino[i as usize];
        let b = before.1;
        assert!(n.mt_s == b.mt_s && n.mt_ns == b.mt_ns && n.mode == b.mode && n.content == b.content && n.nlink == b.nlink,
                "KV-C15: only the access time of an entry that was found may change in a read-only cache");
    }
}

/// One stacked operation.  `readers`: 0, 1 (/r) or 2 (/r then /q).
fn stack_case(writer: u8, readers: u8, op: u8, checker: u8, auto_sync: bool, fault: bool, env: u8, contents: [u8; 3]) {
    kfs::reset();
    unsafe {
        SHARDED_REACHED = false;
        JUDGE_SAW = 0;
        JUDGE_CONTENT = 0;
        POPULATE_CALLS = 0;
    }
    // ---- pre-state ---------------------------------------------------------------------------
    let wdir = if writer == W_PLAIN { kfs::D_W } else { kfs::d_shard(0, 0) };
    let mut wc = 0u8;
    if writer != W_NONE {
        wc = level(wdir, false, contents[0]);
        if writer == W_SHARDED {
            kfs::mkdir(kfs::d_shard(0, 1));
        }
    }
    let rc = if readers >= 1 { level(kfs::D_R, true, contents[1]) } else { 0 };
    let qc = if readers >= 2 { level(kfs::D_Q, true, contents[2]) } else { 0 };
    let r_before = snapshot(kfs::D_R);
    let q_before = snapshot(kfs::D_Q);
    kfs::k().auto_sync = auto_sync;
    // ---- the real builder ----------------------------------------------------------------------
    let mut b = CacheBuilder::new();
    if writer == W_PLAIN {
        b.plain_writer(kfs::path_of(kfs::D_W, kfs::NONE), 100);
    } else if writer == W_SHARDED {
        b.sharded_writer(kfs::path_of(kfs::D_S, kfs::NONE), 2, 100);
    }
    b.auto_sync(auto_sync);
    if checker == CK_BYTES {
        b.byte_equality_checker();
    } else if checker == CK_PANIC {
        b.panicking_byte_equality_checker();
    }
    let mut cache = b.take().build();
    if readers >= 1 {
        // same value the builder would produce, built with a typed move (see harness/readonly_ops.rs)
        let r = kfs::path_of(kfs::D_R, kfs::NONE);
        let q = kfs::path_of(kfs::D_Q, kfs::NONE);
        let ck = cache.consistency_checker.clone();
        cache.read_side = if readers >= 2 {
            crate::readonly::kv_readonly_ops::make(&[r.as_path(), q.as_path()], ck)
        } else {
            crate::readonly::kv_readonly_ops::make(&[r.as_path()], ck)
        };
    }
    if fault {
        kfs::k().fail_at = kani::any();
        kfs::k().fail_errno = kfs::EIO;
    }
    if env != kfs::ENV_NONE && writer != W_NONE {
        kfs::k().env = env;
        kfs::k().dir[wdir as usize].shared = true;
    }
    let quiet = !fault && env == kfs::ENV_NONE; // the sequential, fault-free specification applies
    let key = Key::new(kfs::KEY_A, 1, 2);
    // reference answers
    let first = if wc != 0 { wc } else if rc != 0 { rc } else { qc };
    let first_is_primary = wc != 0;
    let all_equal = (wc == 0 || wc == first) && (rc == 0 || rc == first) && (qc == 0 || qc == first);
    let st = kfs::k();
    kfs::begin_op(kfs::OP_STACK, (writer as i64) | ((readers as i64) << 4) | ((op as i64) << 8) | ((checker as i64) << 16) | ((auto_sync as i64) << 20), 0, 0);

    if op == OP_GET {
        let r = cache.get(key);
        if quiet {
            if checker == CK_NONE || all_equal {
                assert!(r.is_ok(), "KV-C14: a lookup succeeds when there is no checker or all present copies are identical");
                match r.as_ref().unwrap() {
                    Some(f) => {
                        let n = kfs::inode_of(f);
                        assert!(first != 0 && n.content == first, "KV-C13: get returns the first copy found, write cache first, then read-only caches in order");
                        assert!(n.complete && n.key_tag == kfs::S_A, "KV-C01: a complete value for the key");
                        assert!(!kfs::fd_of(f).writable && kfs::fd_of(f).off == 0, "KV-C19: handles are read-only and at offset 0 even after the checker consumed them");
                        assert!(st.open_now == 1, "KV-C20: only the returned handle stays open");
                    }
                    None => {
                        assert!(first == 0, "KV-C13: a miss only when no level holds the key");
                        assert!(st.open_now == 0, "KV-C20: nothing stays open after a miss");
                    }
                }
            } else if checker == CK_BYTES {
                assert!(r.is_err(), "KV-C14: with the byte-equality checker a lookup fails when any two present copies differ");
            }
            if checker == CK_NONE && first != 0 {
                // later levels are not consulted
                let opens = st.kind_calls[kfs::C_OPEN as usize];
                let expect = if wc != 0 { 1 } else if rc != 0 { 1 + (writer != W_NONE) as u8 + (writer == W_SHARDED) as u8 } else { 2 + (writer != W_NONE) as u8 + (writer == W_SHARDED) as u8 };
                assert!(opens == expect, "KV-C14: with no checker configured later copies are not consulted");
            }
            assert!(st.open_peak <= if checker == CK_NONE { 2 } else { 3 }, "KV-C20: at most two files open at once (three while a checker compares)");
        }
        kani::cover!(matches!(&r, Ok(Some(_))) && !first_is_primary, "hit served by a read-only cache");
        kani::cover!(r.is_err(), "lookup failed");
        std::mem::forget(r);
    } else if op == OP_TOUCH {
        let r = cache.touch(key);
        if quiet {
            assert!(r.is_ok(), "KV-C05: touch succeeds");
            assert!(*r.as_ref().unwrap() == (first != 0), "KV-C13: touch reports whether any level holds the key");
            // the first copy found is the one marked
            let dir_first = if wc != 0 { wdir } else if rc != 0 { kfs::D_R } else { kfs::D_Q };
            if first != 0 {
                let n = st.ino[kfs::bound(dir_first, kfs::S_A) as usize];
                assert!(kfs::accessed(&n), "KV-C13: touch marks the first copy found");
            }
        }
        kani::cover!(matches!(&r, Ok(true)), "found");
        std::mem::forget(r);
    } else if op == OP_ENSURE || op == OP_GOU {
        let pop_outcome: u8 = if unsafe { FIX_POP } != SYM { unsafe { FIX_POP } } else { kani::any() }; // 0: writes VAL_C, 1: NotFound, 2: other error
        kani::assume(pop_outcome <= 2);
        let action: u8 = if op == OP_ENSURE { 1 } else if unsafe { FIX_ACTION } != SYM { unsafe { FIX_ACTION } } else { kani::any() }; // 0 Accept, 1 Promote, 2 Replace
        kani::assume(action <= 2);
        kfs::dump(kfs::T_OP, 4, action as i64);
        kfs::dump(kfs::T_OP, 5, pop_outcome as i64);
        let populate = |dst: &mut File, old: Option<File>| -> Result<()> {
            unsafe { POPULATE_CALLS += 1 };
            std::mem::drop(old);
            match pop_outcome {
                0 => {
                    kfs::write_value(dst, VAL_C, kfs::S_A, true);
                    Ok(())
                }
                1 => Err(kfs::err(kfs::ENOENT)),
                _ => {
                    kfs::write_value(dst, VAL_C, kfs::S_A, false); // partial write, then failure
                    Err(kfs::err(kfs::ENOSPC))
                }
            }
        };
        let judge = |hit: CacheHit| -> CacheHitAction {
            match hit {
                // the judge reads the hit to the end before answering
                CacheHit::Primary(f) => unsafe {
                    JUDGE_SAW = 1;
                    JUDGE_CONTENT = kfs::inode_of(f).content;
                    kfs::consume(f);
                },
                CacheHit::Secondary(f) => unsafe {
                    JUDGE_SAW = 2;
                    JUDGE_CONTENT = kfs::inode_of(f).content;
                    kfs::consume(f);
                },
            }
            match action {
                0 => CacheHitAction::Accept,
                1 => CacheHitAction::Promote,
                _ => CacheHitAction::Replace,
            }
        };
        let r = if op == OP_ENSURE {
            cache.ensure(key, |dst| populate(dst, None))
        } else {
            cache.get_or_update(key, judge, populate)
        };
        let saw = unsafe { JUDGE_SAW };
        let read_first = if rc != 0 { rc } else { qc };
        if quiet {
            if op == OP_GOU && first != 0 && (checker == CK_NONE || all_equal) {
                assert!(saw == if first_is_primary { 1 } else { 2 }, "KV-C13: a hit is reported as primary exactly when it came from the write cache");
                assert!(unsafe { JUDGE_CONTENT } == first, "KV-C13: the judge sees the first copy found");
            }
            let hit = first != 0 && (checker == CK_NONE || all_equal);
            let accepts = hit && action != 2;
            if accepts {
                // Accept / Promote (a no-op for a primary hit)
                let compared = checker != CK_NONE;
                if !compared || pop_outcome == 1 || (pop_outcome == 0 && first == VAL_C) {
                    assert!(r.is_ok(), "KV-C13: Accept/Promote return the hit");
                } else if checker == CK_BYTES && pop_outcome == 0 {
                    assert!(r.is_err(), "KV-C14: an accepted hit is compared with a freshly populated value");
                } else if pop_outcome == 2 {
                    assert!(r.is_err(), "KV-C14: populate errors other than NotFound reach the caller");
                }
                if let Ok(f) = &r {
                    assert!(kfs::inode_of(f).content == first, "KV-C13: Accept/Promote return the hit");
                    assert!(!kfs::fd_of(f).writable && kfs::fd_of(f).off == 0, "KV-C19: read-only, offset 0, even after judge and checker consumed it");
                    if action == 0 || first_is_primary || writer == W_NONE {
                        // nothing changes in the write cache
                        if writer != W_NONE {
                            let i = kfs::bound(wdir, kfs::S_A);
                            assert!((i == kfs::NONE) == (wc == 0) && (i == kfs::NONE || st.ino[i as usize].content == wc),
                                    "KV-C13: Accept changes nothing");
                        }
                    } else {
                        // Promote of a secondary hit leaves an identical copy in the write cache
                        let i = kfs::bound(wdir, kfs::S_A);
                        assert!(i != kfs::NONE && st.ino[i as usize].content == first && st.ino[i as usize].key_tag == kfs::S_A,
                                "KV-C13: Promote leaves an identical copy in the write cache");
                        assert!(st.ino[i as usize].mode & 0o777 == 0o444, "KV-C19: entries populated by the library have mode 0444");
                    }
                }
                if !compared {
                    assert!(unsafe { POPULATE_CALLS } == 0, "KV-C13: Accept/Promote do not populate when no checker is configured");
                }
            } else if checker == CK_NONE || all_equal {
                // miss, or Replace
                if writer == W_NONE {
                    if pop_outcome == 0 {
                        assert!(r.is_ok(), "KV-C13: without a write cache misses are served from a throw-away file");
                        let f = r.as_ref().unwrap();
                        assert!(kfs::inode_of(f).content == VAL_C && kfs::fd_of(f).off == 0, "KV-C13: the throw-away file holds the populated value, rewound");
                        assert!(kfs::inode_of(f).nlink == 0, "KV-C13: nothing is stored anywhere without a write cache");
                    } else {
                        assert!(r.is_err(), "KV-C18: populate errors reach the caller");
                    }
                } else if pop_outcome == 0 {
                    assert!(r.is_ok(), "KV-C13: a miss or Replace stores the populated value and returns it");
                    let f = r.as_ref().unwrap();
                    assert!(kfs::inode_of(f).content == VAL_C, "KV-C13: Replace or a miss returns the newly populated value");
                    assert!(!kfs::fd_of(f).writable && kfs::fd_of(f).off == 0, "KV-C19: read-only, offset 0");
                    let i = kfs::bound(wdir, kfs::S_A);
                    assert!(i != kfs::NONE && st.ino[i as usize].content == VAL_C, "KV-C13: Replace or a miss stores the newly populated value in the write cache");
                    assert!(st.ino[i as usize].mode & 0o777 == 0o444, "KV-C19: entries populated by the library have mode 0444");
                } else {
                    assert!(r.is_err(), "KV-C18: populate errors reach the caller");
                    let i = kfs::bound(wdir, kfs::S_A);
                    assert!((i == kfs::NONE) == (wc == 0) && (i == kfs::NONE || st.ino[i as usize].content == wc),
                            "KV-C18: a failed populate publishes nothing");
                }
            } else if checker == CK_BYTES {
                assert!(r.is_err(), "KV-C14: a lookup fails when present copies differ");
            }
            let _ = read_first;
            if let Ok(f) = &r {
                assert!(st.open_now == 1, "KV-C20: only the returned handle stays open");
                let _ = f;
            } else {
                assert!(st.open_now == 0, "KV-C20: nothing stays open after an error");
            }
        }
        // temp files created by the library are not leaked, whether the call succeeded or failed
        // (unless the injected failure hit the very unlink that removes one)
        if writer != W_NONE {
            let t = if writer == W_PLAIN { kfs::D_WT } else { kfs::d_shard_temp(0, 0) };
            let unlink_failed = st.failed && st.kind_calls[kfs::C_UNLINK as usize] > 0;
            if !unlink_failed {
                assert!(kfs::bound(t, kfs::S_T0) == kfs::NONE && kfs::bound(t, kfs::S_T1) == kfs::NONE,
                        "KV-C18: temporary files created by the library are not leaked");
            }
        }
        if env != kfs::ENV_NONE && !fault && pop_outcome == 0 && checker == CK_NONE && writer != W_NONE {
            assert!(r.is_ok(), "KV-C05: ensure/get_or_update never fail because of concurrent activity");
            if let Ok(f) = &r {
                let got = kfs::inode_of(f);
                assert!(got.complete && got.key_tag == kfs::S_A, "KV-C01: the handle holds a complete value for the key");
                if saw != 0 && action == 2 {
                    assert!(got.content == VAL_C, "KV-C13: Replace returns the newly populated value, whatever other writers do meanwhile");
                }
                if env == kfs::ENV_PUT_ONLY && saw == 0 {
                    // nobody overwrites or evicts: every ensure on the missing key adopts the first value published
                    let cur = kfs::bound(wdir, kfs::S_A);
                    assert!(cur != kfs::NONE && st.ino[cur as usize].content == got.content,
                            "KV-C04: concurrent ensure calls for a missing key all return the winning value");
                }
            }
        }
        kani::cover!(r.is_ok() && saw == 2 && action == 1, "secondary hit promoted");
        kani::cover!(r.is_ok() && first == 0, "miss populated");
        kani::cover!(r.is_ok() && saw != 0 && action == 2, "hit replaced");
        std::mem::forget(r);
    } else {
        // set / put / set_temp_file / put_temp_file
        let r = if op == OP_SET || op == OP_PUT {
            kfs::mkdir(kfs::D_X);
            let _src = kfs::user_source(kfs::D_X, 0, kfs::S_A, VAL_C, false);
            let from = kfs::path_of(kfs::D_X, 0);
            if op == OP_SET { cache.set(key, &from) } else { cache.put(key, &from) }
        } else {
            // a NamedTempFile handed over by the caller, created in the cache's temp dir
            let tdir = if writer == W_PLAIN { kfs::D_WT } else if writer == W_SHARDED { kfs::d_shard_temp(0, 0) } else { kfs::D_X };
            kfs::mkdir(tdir);
            // (creating the caller's temp file is not part of the operation under test)
            let armed = kfs::k().fail_at;
            let envm = kfs::k().env;
            kfs::k().fail_at = 0xffff;
            kfs::k().env = kfs::ENV_NONE;
            let tmp = if writer == W_NONE {
                kfs::k().dir[kfs::D_X as usize].exists = true;
                kfs::fabricate_named_temp(kfs::D_X, 0)
            } else {
                NamedTempFile::new_in(kfs::path_of(tdir, kfs::NONE)).unwrap()
            };
            let mut tmp = tmp;
            kfs::write_value(tmp.as_file_mut(), VAL_C, kfs::S_A, true);
            kfs::k().fail_at = armed;
            kfs::k().env = envm;
            kfs::k().calls = 0;
            kfs::k().trace_n = 0;
            if op == OP_SET_TEMP { cache.set_temp_file(key, tmp) } else { cache.put_temp_file(key, tmp) }
        };
        if quiet {
            if writer == W_NONE {
                assert!(r.is_err() && r.as_ref().err().unwrap().kind() == ErrorKind::Unsupported,
                        "KV-C13: without a write cache, writes fail as unsupported");
            } else {
                assert!(r.is_ok(), "KV-C05: a stacked write succeeds");
                let i = kfs::bound(wdir, kfs::S_A);
                let i2 = if writer == W_SHARDED { kfs::bound(kfs::d_shard(0, 1), kfs::S_A) } else { kfs::NONE };
                let cur = if i != kfs::NONE { i } else { i2 };
                assert!(cur != kfs::NONE, "KV-C11: the key is present after a write");
                let n = st.ino[cur as usize];
                if op == OP_SET || op == OP_SET_TEMP || wc == 0 {
                    assert!(n.content == VAL_C, "KV-C13: set stores the value; put stores it when the key is absent");
                } else {
                    assert!(n.content == wc, "KV-C04: put never changes an existing entry");
                }
                assert!(n.mode & 0o222 == 0, "KV-C19: no write permission bits on a visible file");
                if (op == OP_SET_TEMP || op == OP_PUT_TEMP) && n.content == VAL_C {
                    assert!(n.mode & 0o777 == 0o444, "KV-C19: temp-file objects handed to the library are published with mode 0444");
                }
            }
            assert!(st.open_now == 0, "KV-C20: nothing stays open after a write");
        }
        kani::cover!(r.is_ok(), "write succeeded");
        std::mem::forget(r);
    }
    if readers >= 1 {
        unchanged_but_atime(kfs::D_R, r_before);
    }
    if readers >= 2 {
        unchanged_but_atime(kfs::D_Q, q_before);
    }
    assert!(kfs::tree_valid(), "KV-C02: the tree is valid when the operation returns");
    kani::cover!(true, "operation returned");
    if writer != W_SHARDED {
        assert!(!unsafe { SHARDED_REACHED }, "KV-MODEL: dynamic dispatch on the write side resolved to the plain cache only");
    }
    std::mem::forget(cache);
}

macro_rules! stack_harness {
    ($name:ident, $w:expr, $r:expr, $op:expr, $ck:expr, $sync:expr, $fault:expr) => {
        stack_harness!($name, $w, $r, $op, $ck, $sync, $fault, kfs::ENV_NONE, [SYM, SYM, SYM]);
    };
    ($name:ident, $w:expr, $r:expr, $op:expr, $ck:expr, $sync:expr, $fault:expr, $env:expr) => {
        stack_harness!($name, $w, $r, $op, $ck, $sync, $fault, $env, [SYM, SYM, SYM]);
    };
    ($name:ident, $w:expr, $r:expr, $op:expr, $ck:expr, $sync:expr, $fault:expr, $env:expr, $contents:expr) => {
        kfs_harness! {
            #[kani::unwind(48)]
            #[kani::stub(crate::sharded::Cache::shard_ids, ids_01)]
            #[kani::stub(crate::sharded::Cache::random_shard_id, random_2)]
            #[kani::stub(crate::raw_cache::prune, crate::kv_kfs::spec_prune)]
            fn $name() {
                stack_case($w, $r, $op, $ck, $sync, $fault, $env, $contents);
                if $fault {
                    kani::cover!(kfs::k().failed, "fault fired");
                }
            }
        }
    };
}

const N: u8 = kfs::ENV_NONE;
// lookups: contents symbolic at every level
stack_harness!(stack_get_w1r0_nock, W_PLAIN, 0, OP_GET, CK_NONE, true, false);
stack_harness!(stack_get_w0r1_nock, W_NONE, 1, OP_GET, CK_NONE, true, false);
stack_harness!(stack_get_w1r1_nock, W_PLAIN, 1, OP_GET, CK_NONE, true, false);
stack_harness!(stack_get_w1r2_bytes, W_PLAIN, 2, OP_GET, CK_BYTES, true, false);
stack_harness!(stack_get_w0r2_bytes, W_NONE, 2, OP_GET, CK_BYTES, true, false);
stack_harness!(stack_touch_w1r2, W_PLAIN, 2, OP_TOUCH, CK_NONE, true, false);
// ensure / get_or_update: level contents concrete per harness (miss / secondary hit / primary hit)
stack_harness!(stack_ensure_w1r1_miss, W_PLAIN, 1, OP_ENSURE, CK_NONE, true, false, N, [0, 0, 0]);
stack_harness!(stack_ensure_w1r1_sec, W_PLAIN, 1, OP_ENSURE, CK_NONE, true, false, N, [0, VAL_A, 0]);
stack_harness!(stack_gou_w1r1_miss, W_PLAIN, 1, OP_GOU, CK_NONE, true, false, N, [0, 0, 0]);
stack_harness!(stack_gou_w1r1_sec, W_PLAIN, 1, OP_GOU, CK_NONE, true, false, N, [0, VAL_A, 0]);
stack_harness!(stack_gou_w1r1_pri, W_PLAIN, 1, OP_GOU, CK_NONE, true, false, N, [VAL_A, VAL_B, 0]);
stack_harness!(stack_gou_w1r1_bytes_sec, W_PLAIN, 1, OP_GOU, CK_BYTES, true, false, N, [0, VAL_A, 0]);
stack_harness!(stack_gou_w1r1_bytes_pri_same, W_PLAIN, 1, OP_GOU, CK_BYTES, true, false, N, [VAL_A, VAL_A, 0]);
stack_harness!(stack_gou_w1r1_bytes_pri_diff, W_PLAIN, 1, OP_GOU, CK_BYTES, true, false, N, [VAL_A, VAL_B, 0]);
stack_harness!(stack_gou_w1r0_bytes_pri, W_PLAIN, 0, OP_GOU, CK_BYTES, true, false, N, [VAL_A, 0, 0]);
stack_harness!(stack_gou_w0r1_sec, W_NONE, 1, OP_GOU, CK_NONE, true, false, N, [0, VAL_A, 0]);
stack_harness!(stack_gou_w0r1_miss, W_NONE, 1, OP_GOU, CK_NONE, true, false, N, [0, 0, 0]);
stack_harness!(stack_gou_w2r1_miss, W_SHARDED, 1, OP_GOU, CK_NONE, true, false, N, [0, 0, 0]);
stack_harness!(stack_gou_w2r1_sec, W_SHARDED, 1, OP_GOU, CK_NONE, true, false, N, [0, VAL_A, 0]);
// writes
stack_harness!(stack_set_w1r1, W_PLAIN, 1, OP_SET, CK_NONE, true, false, N, [SYM, 0, 0]);
stack_harness!(stack_put_w1r1, W_PLAIN, 1, OP_PUT, CK_NONE, true, false, N, [SYM, 0, 0]);
stack_harness!(stack_set_temp_w1r1, W_PLAIN, 1, OP_SET_TEMP, CK_NONE, true, false, N, [SYM, 0, 0]);
stack_harness!(stack_put_temp_w2r0, W_SHARDED, 0, OP_PUT_TEMP, CK_NONE, true, false, N, [0, 0, 0]);
stack_harness!(stack_set_w0r1, W_NONE, 1, OP_SET, CK_NONE, true, false);
stack_harness!(stack_put_temp_w0r1, W_NONE, 1, OP_PUT_TEMP, CK_NONE, true, false);
// other participants act on the write cache between any two of our calls
stack_harness!(stack_gou_w1r1_env_sec, W_PLAIN, 1, OP_GOU, CK_NONE, true, false, kfs::ENV_FULL, [0, VAL_A, 0]);
stack_harness!(stack_ensure_w1r0_putonly_miss, W_PLAIN, 0, OP_ENSURE, CK_NONE, true, false, kfs::ENV_PUT_ONLY, [0, 0, 0]);
// auto_sync off: no flush is required (the C03 rule is not armed), nothing else changes
stack_harness!(stack_gou_w1r1_nosync_miss, W_PLAIN, 1, OP_GOU, CK_NONE, false, false, N, [0, 0, 0]);
// one failing call (flush included)
stack_harness!(stack_gou_w1r1_fault_miss, W_PLAIN, 1, OP_GOU, CK_NONE, true, true, N, [0, 0, 0]);
stack_harness!(stack_gou_w1r1_fault_sec, W_PLAIN, 1, OP_GOU, CK_NONE, true, true, N, [0, VAL_A, 0]);
stack_harness!(stack_set_temp_w1r1_fault, W_PLAIN, 1, OP_SET_TEMP, CK_NONE, true, true, N, [0, 0, 0]);
stack_harness!(stack_set_w1r1_fault, W_PLAIN, 1, OP_SET, CK_NONE, true, true, N, [0, 0, 0]);

// ---- the same cases with every plain level replaced by its summary (harness/contracts.rs) ---------
// stack.rs and readonly.rs run for real; plain::Cache::{get,touch,set,put,temp_dir} are the
// step-for-step summaries.  This is what makes symbolic level contents, faults and peers affordable
// for ensure / get_or_update / set_temp_file.
macro_rules! stackc_harness {
    ($name:ident, $w:expr, $r:expr, $op:expr, $ck:expr, $sync:expr, $fault:expr, $env:expr, $contents:expr) => {
        stackc_harness!($name, $w, $r, $op, $ck, $sync, $fault, $env, $contents, false);
    };
    ($name:ident, $w:expr, $r:expr, $op:expr, $ck:expr, $sync:expr, $fault:expr, $env:expr, $contents:expr, $crash:expr) => {
        stackc_harness!($name, $w, $r, $op, $ck, $sync, $fault, $env, $contents, $crash, SYM, SYM);
    };
    ($name:ident, $w:expr, $r:expr, $op:expr, $ck:expr, $sync:expr, $fault:expr, $env:expr, $contents:expr, $crash:expr, $pop:expr, $act:expr) => {
        kfs_harness! {
            #[kani::unwind(48)]
            #[kani::stub(crate::sharded::Cache::shard_ids, ids_01)]
            #[kani::stub(crate::sharded::Cache::random_shard_id, random_2)]
            #[kani::stub(crate::raw_cache::prune, crate::kv_kfs::spec_prune)]
            #[kani::stub(crate::plain::Cache::get, crate::plain::kv_contracts::c_get)]
            #[kani::stub(crate::plain::Cache::touch, crate::plain::kv_contracts::c_touch)]
            #[kani::stub(crate::plain::Cache::set, crate::plain::kv_contracts::c_set)]
            #[kani::stub(crate::plain::Cache::put, crate::plain::kv_contracts::c_put)]
            #[kani::stub(crate::plain::Cache::temp_dir, crate::plain::kv_contracts::c_temp_dir)]
            fn $name() {
                unsafe {
                    kfs::CRASH_CHECKS = $crash;
                    FIX_POP = $pop;
                    FIX_ACTION = $act;
                }
                stack_case($w, $r, $op, $ck, $sync, $fault, $env, $contents);
                if $fault {
                    kani::cover!(kfs::k().failed, "fault fired");
                }
            }
        }
    };
}

const S3: [u8; 3] = [SYM, SYM, SYM];
stackc_harness!(stackc_get_w1r2_bytes, W_PLAIN, 2, OP_GET, CK_BYTES, true, false, N, S3);
stackc_harness!(stackc_touch_w1r2, W_PLAIN, 2, OP_TOUCH, CK_NONE, true, false, N, S3);
stackc_harness!(stackc_ensure_w1r1, W_PLAIN, 1, OP_ENSURE, CK_NONE, true, false, N, S3);
stackc_harness!(stackc_ensure_w1r1_miss, W_PLAIN, 1, OP_ENSURE, CK_NONE, true, false, N, [0, 0, 0]);
stackc_harness!(stackc_gou_w1r1, W_PLAIN, 1, OP_GOU, CK_NONE, true, false, N, S3);
stackc_harness!(stackc_gou_w1r1_miss, W_PLAIN, 1, OP_GOU, CK_NONE, true, false, N, [0, 0, 0]);
stackc_harness!(stackc_gou_w1r1_sec, W_PLAIN, 1, OP_GOU, CK_NONE, true, false, N, [0, VAL_A, 0]);
stackc_harness!(stackc_gou_w1r1_pri, W_PLAIN, 1, OP_GOU, CK_NONE, true, false, N, [VAL_A, VAL_B, 0]);
stackc_harness!(stackc_gou_w1r1_bytes, W_PLAIN, 1, OP_GOU, CK_BYTES, true, false, N, S3);
stackc_harness!(stackc_gou_w1r1_bytes_sec, W_PLAIN, 1, OP_GOU, CK_BYTES, true, false, N, [0, VAL_A, 0]);
stackc_harness!(stackc_gou_w1r1_bytes_pri_same, W_PLAIN, 1, OP_GOU, CK_BYTES, true, false, N, [VAL_A, VAL_A, 0]);
stackc_harness!(stackc_gou_w1r1_bytes_pri_diff, W_PLAIN, 1, OP_GOU, CK_BYTES, true, false, N, [VAL_A, VAL_B, 0]);
stackc_harness!(stackc_gou_w1r0_bytes_pri, W_PLAIN, 0, OP_GOU, CK_BYTES, true, false, N, [VAL_A, 0, 0]);
stackc_harness!(stackc_gou_w1r2_bytes, W_PLAIN, 2, OP_GOU, CK_BYTES, true, false, N, S3);
stackc_harness!(stackc_set_w1r1, W_PLAIN, 1, OP_SET, CK_NONE, true, false, N, [SYM, 0, 0]);
stackc_harness!(stackc_put_w1r1, W_PLAIN, 1, OP_PUT, CK_NONE, true, false, N, [SYM, 0, 0]);
stackc_harness!(stackc_set_temp_w1r1, W_PLAIN, 1, OP_SET_TEMP, CK_NONE, true, false, N, [SYM, 0, 0]);
stackc_harness!(stackc_put_temp_w1r1, W_PLAIN, 1, OP_PUT_TEMP, CK_NONE, true, false, N, [SYM, 0, 0]);
stackc_harness!(stackc_gou_w1r1_env_sec, W_PLAIN, 1, OP_GOU, CK_NONE, true, false, kfs::ENV_FULL, [0, VAL_A, 0]);
stackc_harness!(stackc_gou_w1r1_env_miss, W_PLAIN, 1, OP_GOU, CK_NONE, true, false, kfs::ENV_FULL, [0, 0, 0]);
stackc_harness!(stackc_ensure_w1r0_putonly_miss, W_PLAIN, 0, OP_ENSURE, CK_NONE, true, false, kfs::ENV_PUT_ONLY, [0, 0, 0]);
stackc_harness!(stackc_gou_w1r1_nosync_miss, W_PLAIN, 1, OP_GOU, CK_NONE, false, false, N, [0, 0, 0]);
stackc_harness!(stackc_gou_w1r1_fault_miss, W_PLAIN, 1, OP_GOU, CK_NONE, true, true, N, [0, 0, 0]);
stackc_harness!(stackc_gou_w1r1_fault_sec, W_PLAIN, 1, OP_GOU, CK_NONE, true, true, N, [0, VAL_A, 0]);
stackc_harness!(stackc_gou_w1r1_fault_pri, W_PLAIN, 1, OP_GOU, CK_NONE, true, true, N, [VAL_A, 0, 0]);
stackc_harness!(stackc_set_temp_w1r1_fault, W_PLAIN, 1, OP_SET_TEMP, CK_NONE, true, true, N, [0, 0, 0]);
stackc_harness!(stackc_put_temp_w1r1_fault, W_PLAIN, 1, OP_PUT_TEMP, CK_NONE, true, true, N, [0, 0, 0]);
stackc_harness!(stackc_set_w1r1_fault, W_PLAIN, 1, OP_SET, CK_NONE, true, true, N, [0, 0, 0]);
// experiments: populate outcome / judge answer fixed
stackc_harness!(stackc_gou_w1r1_pri_p0, W_PLAIN, 1, OP_GOU, CK_NONE, true, false, N, [VAL_A, VAL_B, 0], false, 0, SYM);
stackc_harness!(stackc_gou_w1r1_pri_p0a2, W_PLAIN, 1, OP_GOU, CK_NONE, true, false, N, [VAL_A, VAL_B, 0], false, 0, 2);
// with the crash-point invariant re-checked at every call boundary (C02 at the stack level)
stackc_harness!(stackc_set_w1r1_cp, W_PLAIN, 1, OP_SET, CK_NONE, true, false, N, [SYM, 0, 0], true);
stackc_harness!(stackc_set_temp_w1r1_cp, W_PLAIN, 1, OP_SET_TEMP, CK_NONE, true, false, N, [SYM, 0, 0], true);
stackc_harness!(stackc_gou_w1r1_miss_cp, W_PLAIN, 1, OP_GOU, CK_NONE, true, false, N, [0, 0, 0], true);

kfs_harness! {
    #[kani::unwind(48)]
    #[kani::stub(crate::raw_cache::prune, crate::kv_kfs::spec_prune)]
    #[kani::stub(crate::sharded::Cache::shard_ids, ids_01)]
    #[kani::stub(crate::sharded::Cache::random_shard_id, random_2)]
    fn stack_ops_sanity_twin() {
        stack_case(W_PLAIN, 0, OP_GET, CK_NONE, true, false, kfs::ENV_NONE, [SYM, SYM, SYM]);
        assert!(false, "KV-SANITY: reachable end of harness");
    }
}


