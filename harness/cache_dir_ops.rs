// kv-mount: src/cache_dir.rs
// kv-needs: kfs
//
// cache_dir: key validation and confinement (C16), temp-directory cleanup by age (C02/C17).
use super::*;
use crate::kv_kfs as kfs;
use crate::kv_kfs::kfs_harness;

fn ascii_name(buf: &[u8; 3], len: usize) -> &str {
    // every byte < 128: any ASCII string is valid UTF-8 (non-ASCII names behave like letters for
    // the first-byte rule and for path construction: no byte >= 128 is a separator)
    unsafe { std::str::from_utf8_unchecked(&buf[..len]) }
}

#[kani::proof]
#[kani::unwind(8)]
fn c16_validator() {
    let buf: [u8; 3] = kani::any();
    let len: usize = kani::any();
    kani::assume(len <= 3);
    kani::assume(buf[0] < 128 && buf[1] < 128 && buf[2] < 128);
    let name = ascii_name(&buf, len);
    let r = validate_file_name(name);
    let reserved = len == 0 || buf[0] == b'.' || buf[0] == b'/' || buf[0] == b'\\';
    match &r {
        Ok(n) => {
            assert!(!reserved, "KV-C16: empty names and names starting with '.', '/' or '\\' are rejected");
            assert!(n.len() == len && n.as_ptr() == name.as_ptr(), "KV-C16: an accepted name is used unchanged");
        }
        Err(e) => {
            assert!(e.kind() == ErrorKind::InvalidInput, "KV-C16: invalid names fail with InvalidInput");
        }
    }
    kani::cover!(r.is_ok(), "accepted name");
    kani::cover!(r.is_err() && len > 0, "rejected non-empty name");
    std::mem::forget(r);
}

/// Confinement: an accepted name denotes exactly one entry directly inside the directory.
/// The path is built exactly as CacheDir::{get,set,put,touch} build it: base.push(name).
#[kani::proof]
#[kani::unwind(12)]
fn c16_confinement() {
    let buf: [u8; 3] = kani::any();
    let len: usize = kani::any();
    kani::assume(len >= 1 && len <= 3);
    kani::assume(buf[0] < 128 && buf[1] < 128 && buf[2] < 128);
    let name = ascii_name(&buf, len);
    if let Ok(valid) = validate_file_name(name) {
        let mut target = PathBuf::from("/w");
        target.push(valid);
        let bytes = {
            use std::os::unix::ffi::OsStrExt;
            target.as_os_str().as_bytes()
        };
        // "/w/" + name, and the name is a single normal component: no separator, not "." / ".."
        assert!(bytes.len() == 3 + len && bytes[0] == b'/' && bytes[1] == b'w' && bytes[2] == b'/',
                "KV-C16: an accepted name never replaces the directory part of the path");
        let mut i = 0;
        while i < 3 {
            if i < len {
                assert!(buf[i] != b'/', "KV-C16: an accepted name denotes an entry directly inside the cache directory (no path separator)");
            }
            i += 1;
        }
        kani::cover!(len == 3, "three-byte accepted name");
    }
}

#[kani::proof]
#[kani::unwind(8)]
fn c16_sanity_twin() {
    let buf: [u8; 3] = kani::any();
    let len: usize = kani::any();
    kani::assume(len <= 3);
    kani::assume(buf[0] < 128 && buf[1] < 128 && buf[2] < 128);
    let r = validate_file_name(ascii_name(&buf, len));
    std::mem::forget(r);
    assert!(false, "KV-SANITY: reachable end of harness");
}

// ---- temp directory cleanup by age -------------------------------------------------------------
kfs_harness! {
    #[kani::unwind(48)]
    fn c02_cleanup_temp_by_age() {
        kfs::reset();
        kfs::mkdir(kfs::D_W);
        kfs::mkdir(kfs::D_WT);
        // one cached entry next to the temp dir, two temp files of arbitrary age
        let ia = kfs::install(kfs::D_W, kfs::S_A, kfs::any_published(kfs::S_A, 1));
        let mut t0 = kfs::any_published(kfs::NONE, 0);
        t0.published = false; t0.complete = false; t0.mode = 0o100600;
        let mut t1 = t0;
        let (s1, n1) = (kani::any::<i64>(), kani::any::<u32>());
        kani::assume(s1 >= 0 && s1 < (1i64 << 40) && n1 < 1_000_000_000);
        t1.mt_s = s1; t1.mt_ns = n1;
        let i0 = kfs::install(kfs::D_WT, kfs::S_T0, t0);
        let i1 = kfs::install(kfs::D_WT, kfs::S_OLD, t1);
        kfs::begin_op(kfs::OP_CLEANUP_TEMP, 0, 0, 0);
        let r = cleanup_temporary_directory(Cow::from(kfs::path_of(kfs::D_WT, kfs::NONE)));
        assert!(r.is_ok(), "KV-C05: temp cleanup succeeds");
        let st = kfs::k();
        let (now_s, now_ns) = (st.now_s, st.now_ns);
        // `now` is the clock value the function read (the only clock read in this harness)
        let old = |n: &kfs::Inode| -> bool {
            // mtime < now - 3600 s
            let th_s = now_s - 3600;
            now_s >= 3600 && (n.mt_s < th_s || (n.mt_s == th_s && n.mt_ns < now_ns))
        };
        let gone0 = kfs::bound(kfs::D_WT, kfs::S_T0) == kfs::NONE;
        let gone1 = kfs::bound(kfs::D_WT, kfs::S_OLD) == kfs::NONE;
        assert!(gone0 == old(&t0), "KV-C02: temp files older than the one-hour limit are removed, younger ones are left alone");
        assert!(gone1 == old(&t1), "KV-C17: temp files younger than the age limit (one hour) are never removed, older ones are");
        assert!(kfs::bound(kfs::D_W, kfs::S_A) == ia && !st.dir[kfs::D_W as usize].mutated, "KV-C17: temp cleanup touches nothing outside .kismet_temp");
        kani::cover!(gone0 && !gone1, "old removed, young kept");
        kani::cover!(!gone0 && !gone1, "both young");
        let _ = (i0, i1);
        std::mem::forget(r);
    }
}

// Crash debris: the temp directory holds a stale second link to the inode that is published under
// the key - what a crash between link and unlink in a put leaves behind.
kfs_harness! {
    #[kani::unwind(48)]
    fn c02_cleanup_temp_debris() {
        kfs::reset();
        kfs::mkdir(kfs::D_W);
        kfs::mkdir(kfs::D_WT);
        let mut pa = kfs::any_published(kfs::S_A, 1);
        pa.mt_s = 10; pa.mt_ns = 0; pa.nlink = 2;
        let ia = kfs::install(kfs::D_W, kfs::S_A, pa);
        kfs::k().dir[kfs::D_WT as usize].slot[kfs::S_T0 as usize] = ia;
        kani::assume(kfs::k().now_s > 100_000);
        let mode_before = kfs::k().ino[ia as usize].mode;
        kfs::begin_op(kfs::OP_CLEANUP_TEMP, 1, 0, 0);
        let r = cleanup_temporary_directory(Cow::from(kfs::path_of(kfs::D_WT, kfs::NONE)));
        let st = kfs::k();
        assert!(r.is_ok(), "KV-C05: temp cleanup succeeds");
        assert!(kfs::bound(kfs::D_W, kfs::S_A) == ia, "KV-C17: temp cleanup touches nothing outside .kismet_temp");
        assert!(st.ino[ia as usize].mode == mode_before && (st.ino[ia as usize].mode & 0o222) == 0,
                "KV-C02+C19: collecting crash debris never re-modes the published file it is linked to");
        assert!(kfs::bound(kfs::D_WT, kfs::S_T0) == kfs::NONE && st.ino[ia as usize].nlink == 1,
                "KV-C02: temp files older than the one-hour limit are removed, younger ones are left alone");
        kani::cover!(true, "reachable");
        std::mem::forget(r);
    }
}

// A competing cleaner removes the stale temp file between our stat and our unlink.
kfs_harness! {
    #[kani::unwind(48)]
    fn c05_cleanup_temp_vanish() {
        kfs::reset();
        kfs::mkdir(kfs::D_W);
        kfs::mkdir(kfs::D_WT);
        let mut t1 = kfs::any_published(kfs::NONE, 0);
        t1.published = false; t1.complete = false; t1.mode = 0o100600; t1.mt_s = 20; t1.mt_ns = 0;
        kfs::install(kfs::D_WT, kfs::S_OLD, t1);
        kani::assume(kfs::k().now_s > 100_000);
        // calls: 1 list, 2 stat of the entry, 3 unlink: the third finds the file gone
        kfs::k().fail_at = 3;
        kfs::k().fail_errno = kfs::ENOENT;
        kfs::begin_op(kfs::OP_CLEANUP_TEMP, 2, 0, 0);
        let r = cleanup_temporary_directory(Cow::from(kfs::path_of(kfs::D_WT, kfs::NONE)));
        let st = kfs::k();
        assert!(st.failed && st.kind_calls[kfs::C_UNLINK as usize] == 1, "KV-MODEL: the injected disappearance hits the unlink");
        assert!(r.is_ok(), "KV-C05: temp cleanup succeeds when another participant removes a stale temp file first");
        kani::cover!(true, "reachable");
        std::mem::forget(r);
    }
}

kfs_harness! {
    #[kani::unwind(48)]
    fn c02_cleanup_temp_missing_dir() {
        kfs::reset();
        kfs::mkdir(kfs::D_W);
        let r = cleanup_temporary_directory(Cow::from(kfs::path_of(kfs::D_WT, kfs::NONE)));
        assert!(r.is_ok(), "KV-C05: a missing temp directory is not an error");
        assert!(!kfs::k().dir[kfs::D_WT as usize].exists, "KV-C02: cleanup does not create directories");
        kani::cover!(true, "reachable");
        std::mem::forget(r);
    }
}
