// kv-mount: src/plain.rs
// kv-needs: kfs
//
// plain::Cache::{get, touch, set, put} executed for real on KFS (validation, path building,
// trigger, maintenance entry points, raw_cache publication protocol); `raw_cache::prune` is
// replaced by its specification (kv_kfs::spec_prune), temp-directory cleanup runs for real.
use super::*;
use crate::kv_kfs as kfs;
use crate::kv_kfs::kfs_harness;

fn symbolic_mount() {
    kfs::k().policy = kani::any();
    kani::assume(kfs::k().policy <= 2);
    kfs::k().gran_s = kani::any();
    kani::assume(kfs::k().gran_s <= 2);
}

/// Arbitrary valid plain cache directory: each of the two keys present or not.
fn plain_pre(dir_exists: bool) -> (u8, u8) {
    let mut ia = kfs::NONE;
    let mut ib = kfs::NONE;
    if dir_exists {
        kfs::mkdir(kfs::D_W);
        if kani::any() {
            ia = kfs::install(kfs::D_W, kfs::S_A, kfs::any_published(kfs::S_A, 50));
        }
        if kani::any() {
            ib = kfs::install(kfs::D_W, kfs::S_B, kfs::any_published(kfs::S_B, 60));
        }
    }
    (ia, ib)
}

// ---- get -----------------------------------------------------------------------------------------
fn plain_get_case(env: u8, fault: bool) {
    kfs::reset();
    symbolic_mount();
    let dir_exists: bool = kani::any();
    let (ia, _ib) = plain_pre(dir_exists);
    let pre = if ia != kfs::NONE { kfs::k().ino[ia as usize] } else { kfs::INODE0 };
    let cache = Cache::new(kfs::path_of(kfs::D_W, kfs::NONE), 10);
    kfs::k().env = env;
    kfs::k().dir[kfs::D_W as usize].shared = env != kfs::ENV_NONE;
    if fault {
        kfs::k().fail_at = kani::any();
        kfs::k().fail_errno = kani::any();
        let e = kfs::k().fail_errno;
        kani::assume(e == kfs::EIO || e == kfs::EACCES || e == kfs::EMFILE || e == kfs::ESTALE);
    }
    kfs::begin_op(kfs::OP_PLAIN_GET, 10, 0, 0);
    let r = cache.get(kfs::KEY_A);
    let st = kfs::k();
    if !fault {
        assert!(r.is_ok(), "KV-C05: a lookup never fails because of concurrent activity");
    }
    assert!(st.calls <= 3, "KV-C06: get finishes within a constant number of its own filesystem steps");
    assert!(st.kind_calls[kfs::C_OPEN as usize] <= 1, "KV-C20: at most one open attempt per cache directory for a lookup (plain)");
    assert!(st.kind_calls[kfs::C_READDIR as usize] == 0, "KV-C20: a lookup never lists the directory");
    assert!(!st.dir[kfs::D_W as usize].mutated && !st.dir[kfs::D_W as usize].created_by_us,
            "KV-C15: a lookup never creates, deletes or renames anything");
    assert!(st.open_peak <= 1, "KV-C20: a lookup holds at most one file open");
    if let Ok(opt) = &r {
        match opt {
            Some(f) => {
                let n = kfs::inode_of(f);
                let fd = kfs::fd_of(f);
                assert!(n.complete && n.key_tag == kfs::S_A && (n.mode & 0o222) == 0,
                        "KV-C01: a lookup returns a complete value written for that key");
                assert!(!fd.writable && fd.off == 0, "KV-C19: returned handles are read-only and positioned at offset 0");
                assert!(st.open_now == 1, "KV-C20: nothing but the returned handle stays open");
                if env == kfs::ENV_NONE {
                    assert!(ia != kfs::NONE && n.content == 50, "KV-C11: get returns the value the map predicts");
                    if !fault || !st.failed {
                        assert!(kfs::accessed(&n), "KV-C09: after a get the entry is recognised as recently used");
                    }
                    assert!(n.mt_s == pre.mt_s && n.mt_ns == pre.mt_ns, "KV-C09: a get does not change the queue position");
                } else {
                    assert!(n.content == 50 || n.content >= 100, "KV-C04: get returns a value some writer published for the key");
                }
            }
            None => {
                assert!(st.open_now == 0, "KV-C20: nothing stays open after a miss");
                if env == kfs::ENV_NONE && !st.failed {
                    assert!(ia == kfs::NONE, "KV-C11: a miss only when the key is absent");
                }
            }
        }
    } else {
        assert!(st.open_now == 0, "KV-C20: nothing stays open after an error");
        assert!(st.failed, "KV-C18: errors only when a filesystem call failed");
    }
    kani::cover!(matches!(&r, Ok(Some(_))), "hit reachable");
    kani::cover!(matches!(&r, Ok(None)), "miss reachable");
    std::mem::forget(r);
}

kfs_harness! {
    #[kani::unwind(48)]
    fn plain_get_seq() {
        plain_get_case(kfs::ENV_NONE, false);
    }
}

kfs_harness! {
    #[kani::unwind(48)]
    fn plain_get_env() {
        plain_get_case(kfs::ENV_FULL, false);
    }
}

kfs_harness! {
    #[kani::unwind(48)]
    fn plain_get_fault() {
        plain_get_case(kfs::ENV_NONE, true);
        kani::cover!(kfs::k().failed, "fault fired");
    }
}

// ---- touch ---------------------------------------------------------------------------------------
fn plain_touch_case(env: u8, fault: bool) {
    kfs::reset();
    symbolic_mount();
    let dir_exists: bool = kani::any();
    let (ia, _ib) = plain_pre(dir_exists);
    let pre = if ia != kfs::NONE { kfs::k().ino[ia as usize] } else { kfs::INODE0 };
    let cache = Cache::new(kfs::path_of(kfs::D_W, kfs::NONE), 10);
    kfs::k().env = env;
    kfs::k().dir[kfs::D_W as usize].shared = env != kfs::ENV_NONE;
    if fault {
        kfs::k().fail_at = kani::any();
        kfs::k().fail_errno = kani::any();
        let e = kfs::k().fail_errno;
        kani::assume(e == kfs::EIO || e == kfs::EACCES || e == kfs::ESTALE);
    }
    kfs::begin_op(kfs::OP_PLAIN_TOUCH, 10, 0, 0);
    let r = cache.touch(kfs::KEY_A);
    let st = kfs::k();
    if !fault {
        assert!(r.is_ok(), "KV-C05: touch never fails because of concurrent activity");
    }
    assert!(st.calls <= 3, "KV-C06: touch finishes within a constant number of its own filesystem steps");
    assert!(st.kind_calls[kfs::C_OPEN as usize] == 0 && st.kind_calls[kfs::C_READDIR as usize] == 0 && st.open_peak == 0,
            "KV-C20: touch opens nothing and never lists the directory");
    assert!(!st.dir[kfs::D_W as usize].mutated && !st.dir[kfs::D_W as usize].created_by_us,
            "KV-C15: touch never creates, deletes or renames anything");
    if let Ok(found) = &r {
        if env == kfs::ENV_NONE && !st.failed {
            assert!(*found == (ia != kfs::NONE), "KV-C04: touch reports presence truthfully");
            if ia != kfs::NONE {
                let n = st.ino[ia as usize];
                assert!(kfs::accessed(&n), "KV-C09: after a touch the entry is recognised as recently used");
                assert!(n.mt_s == pre.mt_s && n.mt_ns == pre.mt_ns && n.content == 50 && n.mode == pre.mode,
                        "KV-C09: a touch changes neither queue position nor content");
            }
        }
    } else {
        assert!(st.failed, "KV-C18: errors only when a filesystem call failed");
    }
    kani::cover!(matches!(&r, Ok(true)), "found");
    kani::cover!(matches!(&r, Ok(false)), "absent");
    std::mem::forget(r);
}

kfs_harness! {
    #[kani::unwind(48)]
    fn plain_touch_seq() {
        plain_touch_case(kfs::ENV_NONE, false);
    }
}

kfs_harness! {
    #[kani::unwind(48)]
    fn plain_touch_env() {
        plain_touch_case(kfs::ENV_FULL, false);
    }
}

kfs_harness! {
    #[kani::unwind(48)]
    fn plain_touch_fault() {
        plain_touch_case(kfs::ENV_NONE, true);
        kani::cover!(kfs::k().failed, "fault fired");
    }
}

// ---- set / put -----------------------------------------------------------------------------------
/// `put == false`: Cache::set, `put == true`: Cache::put.
fn plain_write_case(put: bool, env: u8, fault: bool) {
    kfs::reset();
    symbolic_mount();
    let dir_exists: bool = kani::any();
    let (ia, ib) = plain_pre(dir_exists);
    let prea = if ia != kfs::NONE { kfs::k().ino[ia as usize] } else { kfs::INODE0 };
    let preb = if ib != kfs::NONE { kfs::k().ino[ib as usize] } else { kfs::INODE0 };
    // the caller's source file lives outside the cache directory
    kfs::mkdir(kfs::D_X);
    let src = kfs::user_source(kfs::D_X, 0, kfs::S_A, 9, true);
    let capacity: usize = kani::any();
    let cache = Cache::new(kfs::path_of(kfs::D_W, kfs::NONE), capacity);
    kfs::k().env = env;
    kfs::k().dir[kfs::D_W as usize].shared = env != kfs::ENV_NONE;
    kfs::k().dir[kfs::D_WT as usize].shared = env != kfs::ENV_NONE;
    if fault {
        kfs::k().fail_at = kani::any();
        kfs::k().fail_errno = kani::any();
        let e = kfs::k().fail_errno;
        kani::assume(e == kfs::EIO || e == kfs::EACCES || e == kfs::ENOSPC || e == kfs::ESTALE || e == kfs::ENOTDIR || e == kfs::EXDEV);
    }
    let from = kfs::path_of(kfs::D_X, 0);
    // capacities are dumped saturated (a replay only needs 'tiny' vs 'huge')
    kfs::begin_op(if put { kfs::OP_PLAIN_PUT } else { kfs::OP_PLAIN_SET }, if capacity > 1_000_000 { 1_000_000 } else { capacity as i64 }, 0, 0);
    let r = if put { cache.put(kfs::KEY_A, &from) } else { cache.set(kfs::KEY_A, &from) };
    let st = kfs::k();
    let maintained = st.kind_calls[kfs::C_READDIR as usize] > 0;
    if !fault {
        assert!(r.is_ok(), "KV-C05: a write still completes whatever other participants do");
    }
    // maintenance, when it happens, precedes the publication of this write
    let pubkind = if put { kfs::C_LINK } else { kfs::C_RENAME };
    if maintained && kfs::first_call(pubkind) < kfs::TRACE_LEN {
        assert!(kfs::first_call(kfs::C_READDIR) < kfs::first_call(pubkind), "KV-C10: maintenance runs before the write's own insertion");
    }
    if !maintained {
        assert!(st.calls <= 16, "KV-C06: set/put finish within a constant number of their own filesystem steps");
        assert!(st.kind_calls[kfs::C_OPEN as usize] == 0 && st.open_peak == 0, "KV-C20: a plain write opens no file");
    }
    assert!(st.open_now == 0, "KV-C20: nothing stays open after a write");
    if r.is_ok() {
        assert!(kfs::bound(kfs::D_X, 0) == kfs::NONE, "KV-C11: a successful set or put consumes its source file");
        if env == kfs::ENV_NONE && !st.failed {
            let now_a = kfs::bound(kfs::D_W, kfs::S_A);
            if !put {
                assert!(now_a == src, "KV-C11: after a set the key holds the supplied value");
            } else if ia != kfs::NONE && now_a != kfs::NONE {
                // (maintenance inside this very put may have evicted the old entry first: then the put inserts)
                assert!((now_a == ia && st.ino[ia as usize].content == 50) || (maintained && now_a == src),
                        "KV-C04: a put on an existing key never changes its content");
                if now_a == ia {
                    assert!(st.ino[ia as usize].mt_s == prea.mt_s && st.ino[ia as usize].mt_ns == prea.mt_ns || maintained,
                            "KV-C09: a put on an existing key keeps its queue position");
                    assert!(kfs::accessed(&st.ino[ia as usize]) || maintained, "KV-C09: a put on an existing key marks it as used");
                }
            } else if ia == kfs::NONE {
                assert!(now_a == src, "KV-C11: a put on an absent key inserts the supplied value");
            }
            if now_a == src {
                let n = st.ino[src as usize];
                assert!(!kfs::accessed(&n), "KV-C09: a freshly written entry is not marked as used");
                assert!((n.mode & 0o222) == 0, "KV-C19: published files have no write permission bits");
                if kfs::bound(kfs::D_W, kfs::S_B) == ib && ib != kfs::NONE && !maintained {
                    let b = st.ino[ib as usize];
                    assert!(kfs::at_least(n.mt_s, n.mt_ns, b.mt_s - (b.mt_s % 2), 0) || st.gran_s == 0 && kfs::at_least(n.mt_s, n.mt_ns, b.mt_s, b.mt_ns),
                            "KV-C09: a freshly written entry carries the newest queue position in its directory");
                }
            }
            // entries only disappear through maintenance of an over-full directory
            if !maintained {
                assert!(kfs::bound(kfs::D_W, kfs::S_B) == ib, "KV-C11: entries only disappear through maintenance");
                assert!(st.evicted_by_us == 0, "KV-C11: entries only disappear through maintenance");
            }
        }
    } else {
        assert!(st.failed, "KV-C18: errors only when a filesystem call failed");
    }
    let _ = preb;
    assert!(kfs::tree_valid(), "KV-C02: the directory is valid when the operation returns");
    kani::cover!(r.is_ok() && maintained, "write with maintenance");
    kani::cover!(r.is_ok() && !maintained, "write without maintenance");
    kani::cover!(r.is_ok() && !dir_exists, "write into a missing directory (retry path)");
    std::mem::forget(r);
}

kfs_harness! {
    #[kani::unwind(48)]
    #[kani::stub(crate::raw_cache::prune, crate::kv_kfs::spec_prune)]
    fn plain_set_seq() {
        plain_write_case(false, kfs::ENV_NONE, false);
    }
}

kfs_harness! {
    #[kani::unwind(48)]
    #[kani::stub(crate::raw_cache::prune, crate::kv_kfs::spec_prune)]
    fn plain_put_seq() {
        plain_write_case(true, kfs::ENV_NONE, false);
    }
}

kfs_harness! {
    #[kani::unwind(48)]
    #[kani::stub(crate::raw_cache::prune, crate::kv_kfs::spec_prune)]
    fn plain_set_env() {
        plain_write_case(false, kfs::ENV_FULL, false);
        kani::cover!(kfs::k().env_unbound, "a peer evicted during the write");
    }
}

kfs_harness! {
    #[kani::unwind(48)]
    #[kani::stub(crate::raw_cache::prune, crate::kv_kfs::spec_prune)]
    fn plain_put_env() {
        plain_write_case(true, kfs::ENV_FULL, false);
        kani::cover!(kfs::k().env_rebound, "a peer published during the write");
    }
}

kfs_harness! {
    #[kani::unwind(48)]
    #[kani::stub(crate::raw_cache::prune, crate::kv_kfs::spec_prune)]
    fn plain_set_fault() {
        plain_write_case(false, kfs::ENV_NONE, true);
        kani::cover!(kfs::k().failed, "fault fired");
    }
}

kfs_harness! {
    #[kani::unwind(48)]
    #[kani::stub(crate::raw_cache::prune, crate::kv_kfs::spec_prune)]
    fn plain_put_fault() {
        plain_write_case(true, kfs::ENV_NONE, true);
        kani::cover!(kfs::k().failed, "fault fired");
    }
}

kfs_harness! {
    #[kani::unwind(48)]
    #[kani::stub(crate::raw_cache::prune, crate::kv_kfs::spec_prune)]
    fn plain_ops_sanity_twin() {
        // the lookup case: same set-up and stubs as every harness of this file, a fraction of the cost
        plain_get_case(kfs::ENV_NONE, false);
        assert!(false, "KV-SANITY: reachable end of harness");
    }
}

// ---- a write into a directory that does not exist yet, while other writers create it (C05) --------
kfs_harness! {
    #[kani::unwind(48)]
    #[kani::stub(crate::raw_cache::prune, crate::kv_kfs::spec_prune)]
    #[kani::stub(crate::trigger::PeriodicTrigger::event, crate::kv_kfs::s_trigger_event)]
    fn plain_write_missing_dir_env() {
        kfs::reset();
        kfs::k().trigger_mode = 1; // no maintenance: the subject is the create-directory-and-retry path
        kfs::mkdir(kfs::D_X);
        let src = kfs::user_source(kfs::D_X, 0, kfs::S_A, 9, true);
        let cache = Cache::new(kfs::path_of(kfs::D_W, kfs::NONE), 1000);
        kfs::k().env = kfs::ENV_MKDIR_ONLY;
        kfs::k().dir[kfs::D_W as usize].shared = true;
        let from = kfs::path_of(kfs::D_X, 0);
        let put: bool = kani::any();
        kfs::begin_op(if put { kfs::OP_PLAIN_PUT } else { kfs::OP_PLAIN_SET }, 1000, 0, 0);
        let r = if put { cache.put(kfs::KEY_A, &from) } else { cache.set(kfs::KEY_A, &from) };
        assert!(r.is_ok(), "KV-C05: a write into a missing directory completes even when another participant creates the directory concurrently");
        assert!(kfs::bound(kfs::D_W, kfs::S_A) == src && kfs::bound(kfs::D_X, 0) == kfs::NONE, "KV-C11: the value is stored and the source consumed");
        assert!(kfs::k().calls <= 16, "KV-C06: writes retry at most once");
        kani::cover!(kfs::k().dir[kfs::D_W as usize].created_by_us, "we created the directory");
        kani::cover!(!kfs::k().dir[kfs::D_W as usize].created_by_us, "a peer created the directory");
        std::mem::forget(r);
    }
}

// ---- invalid names: InvalidInput and nothing touched (C16) ----------------------------------------
fn invalid_name_case(name: &'static str) {
    kfs::reset();
    kfs::mkdir(kfs::D_W);
    kfs::mkdir(kfs::D_X);
    let ia = kfs::install(kfs::D_W, kfs::S_A, kfs::any_published(kfs::S_A, 50));
    let src = kfs::user_source(kfs::D_X, 0, kfs::S_A, 9, true);
    let cache = Cache::new(kfs::path_of(kfs::D_W, kfs::NONE), 0);
    let from = kfs::path_of(kfs::D_X, 0);
    let g = matches!(cache.get(name), Err(e) if e.kind() == std::io::ErrorKind::InvalidInput);
    let t = matches!(cache.touch(name), Err(e) if e.kind() == std::io::ErrorKind::InvalidInput);
    let s = matches!(cache.set(name, &from), Err(e) if e.kind() == std::io::ErrorKind::InvalidInput);
    let p = matches!(cache.put(name, &from), Err(e) if e.kind() == std::io::ErrorKind::InvalidInput);
    assert!(g && t && s && p, "KV-C16: operations given an empty name, or one starting with '.', '/' or '\\', fail with InvalidInput");
    let st = kfs::k();
    assert!(kfs::mutating_calls() == 0, "KV-C16: an operation on an invalid name modifies nothing");
    assert!(kfs::bound(kfs::D_W, kfs::S_A) == ia && kfs::bound(kfs::D_X, 0) == src && !st.ino[ia as usize].touched && !st.ino[src as usize].touched,
            "KV-C16: an operation on an invalid name modifies nothing");
    kani::cover!(true, "reachable");
}

macro_rules! invalid_name_harness {
    ($name:ident, $lit:expr) => {
        kfs_harness! {
            #[kani::unwind(48)]
            #[kani::stub(crate::raw_cache::prune, crate::kv_kfs::spec_prune)]
            fn $name() {
                invalid_name_case($lit);
            }
        }
    };
}
invalid_name_harness!(plain_invalid_name_empty, "");
invalid_name_harness!(plain_invalid_name_dot, ".x");
invalid_name_harness!(plain_invalid_name_slash, "/x");
invalid_name_harness!(plain_invalid_name_backslash, "\\x");
