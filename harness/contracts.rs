// kv-mount: src/plain.rs
// kv-needs: kfs
//
// Layered checking of the stacked cache (assume/guarantee between stack.rs and plain.rs).
//
// The "stackc_*" harnesses run the REAL stack.rs / readonly.rs code (builder, lookup order,
// judge and checker plumbing, temp-file creation, flush, publication call, re-open, rewind,
// clean-up) but replace the five entry points of a *plain* level
//
//      plain::Cache::{get, touch, set, put, temp_dir}
//
// with the step-for-step summaries below: the same sequence of KFS calls that
// cache_dir.rs + raw_cache.rs issue (so crash points, fault points, peer steps, publication
// checks and descriptor accounting are all still there), minus what the stack never looks at:
// path construction (std::path, the dominant cost under CBMC), name validation of the fixed key
// and the body of maintenance (a triggered maintenance is one failing-or-not listing step that
// removes nothing: the stack harnesses use capacity 100 with at most one entry).
//
// What the summaries promise is what the plain_* harnesses establish on the real plain.rs /
// cache_dir.rs / raw_cache.rs (same KFS, same assertions inside KFS): a change below the
// plain API is judged there, a change in stack.rs / readonly.rs is judged by stackc_*.
use super::*;
use crate::kv_kfs as kfs;

fn cache_dir_of(c: &Cache) -> u8 {
    let loc = kfs::classify(&c.temp_dir);
    assert!(loc.ok && loc.slot == kfs::NONE && kfs::dir_kind(loc.dir) == kfs::KIND_TEMP, "KV-MODEL: plain cache rooted inside the universe");
    kfs::parent_of(loc.dir)
}

fn slot_for(name: &str) -> std::io::Result<u8> {
    // the stack harnesses only use the (valid) key "ka"; name validation is C16's subject
    assert!(name.as_bytes() == kfs::KEY_A.as_bytes(), "KV-MODEL: summaries are instantiated for the key 'ka' only");
    Ok(kfs::S_A)
}

/// cache_dir::CacheDir::get: open; on success ensure_file_touched (errors ignored).
pub fn c_get(c: &Cache, name: &str) -> std::io::Result<Option<std::fs::File>> {
    let s = slot_for(name)?;
    let d = cache_dir_of(c);
    match kfs::s_file_open(kfs::path_of(d, s)) {
        Ok(file) => {
            let _ = crate::raw_cache::ensure_file_touched(&file);
            Ok(Some(file))
        }
        Err(e) if crate::benign_error::is_absent_file_error(&e) => Ok(None),
        Err(e) => Err(e),
    }
}

/// cache_dir::CacheDir::touch -> raw_cache::touch
pub fn c_touch(c: &Cache, name: &str) -> std::io::Result<bool> {
    let s = slot_for(name)?;
    let d = cache_dir_of(c);
    match kfs::s_set_file_atime(kfs::path_of(d, s), kfs::s_filetime_now()) {
        Ok(()) => Ok(true),
        Err(e) if crate::benign_error::is_absent_file_error(&e) => Ok(false),
        Err(e) => Err(e),
    }
}

/// cache_dir::CacheDir::ensure_temp_dir
pub fn c_temp_dir(c: &Cache) -> std::io::Result<std::borrow::Cow<'_, std::path::Path>> {
    let d = cache_dir_of(c);
    let t = kfs::temp_of(d);
    // ensure_directory: one stat; mkdir -p when missing
    if kfs::s_metadata(kfs::path_of(t, kfs::NONE)).is_err() {
        kfs::s_create_dir_all(kfs::path_of(t, kfs::NONE))?;
    }
    Ok(std::borrow::Cow::from(c.temp_dir.as_path()))
}

/// Triggered maintenance as the stack sees it: it may run, it lists the directory, it may fail.
fn c_maybe_cleanup(d: u8) -> std::io::Result<()> {
    if kfs::c_trigger_draw() {
        kfs::c_listing_step(d)?;
    }
    Ok(())
}

fn c_publish(from: &std::path::Path, d: u8, s: u8, put: bool) -> std::io::Result<()> {
    // raw_cache::move_to_back_of_list; set_read_only; rename | link (EEXIST: touch); ensure_file_removed
    let now = kfs::s_filetime_now();
    kfs::s_set_file_times(from, now, now)?;
    let mut perm = kfs::s_metadata(from)?.permissions();
    perm.set_readonly(true);
    kfs::s_set_permissions(from, perm)?;
    let to = kfs::path_of(d, s);
    if put {
        match kfs::s_hard_link(from, &to) {
            Ok(()) => {}
            Err(e) if e.kind() == std::io::ErrorKind::AlreadyExists => {
                c_raw_touch(&to)?;
            }
            Err(e) => return Err(e),
        }
    } else {
        kfs::s_rename(from, &to)?;
    }
    match kfs::s_remove_file(from) {
        Ok(()) => Ok(()),
        Err(e) if crate::benign_error::is_absent_file_error(&e) => Ok(()),
        Err(e) => Err(e),
    }
}

fn c_raw_touch(to: &std::path::Path) -> std::io::Result<bool> {
    match kfs::s_set_file_atime(to, kfs::s_filetime_now()) {
        Ok(()) => Ok(true),
        Err(e) if crate::benign_error::is_absent_file_error(&e) => Ok(false),
        Err(e) => Err(e),
    }
}

fn c_write(c: &Cache, name: &str, value: &std::path::Path, put: bool) -> std::io::Result<()> {
    let s = slot_for(name)?;
    let d = cache_dir_of(c);
    c_maybe_cleanup(d)?;
    if c_publish(value, d, s, put).is_ok() {
        return Ok(());
    }
    kfs::s_create_dir_all(kfs::path_of(d, kfs::NONE))?;
    c_publish(value, d, s, put)
}

pub fn c_set(c: &Cache, name: &str, value: &std::path::Path) -> std::io::Result<()> {
    c_write(c, name, value, false)
}

pub fn c_put(c: &Cache, name: &str, value: &std::path::Path) -> std::io::Result<()> {
    c_write(c, name, value, true)
}
