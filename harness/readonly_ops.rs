// kv-mount: src/readonly.rs
// kv-needs: kfs
//
// Direct construction of a ReadOnlyCache over plain cache directories.  `ReadOnlyCacheBuilder::build`
// turns its Vec<Box<dyn ReadSide>> into an Arc<[Box<dyn ReadSide>]> through a byte-wise copy
// (Arc::<[T]>::from(Box<[T]>)); CBMC loses the provenance of the fat pointers copied that way and
// every later path operation unwinds to its bound (measured: stack_get over one plain writer: 251 s;
// with one plain reader added through the builder: > 1 h).  Harnesses with read-only levels build
// the same value with a typed move instead; the builder itself is executed for real in the shapes
// without read-only levels and in `readonly_builder_equiv` below.
use super::*;

pub(crate) fn make(paths: &[&Path], checker: Option<ConsistencyChecker>) -> ReadOnlyCache {
    let stack: Arc<[Box<dyn ReadSide>]> = match paths.len() {
        0 => Arc::new([]),
        1 => Arc::new([Box::new(PlainCache::new(paths[0].to_owned(), usize::MAX)) as Box<dyn ReadSide>]),
        _ => Arc::new([
            Box::new(PlainCache::new(paths[0].to_owned(), usize::MAX)) as Box<dyn ReadSide>,
            Box::new(PlainCache::new(paths[1].to_owned(), usize::MAX)) as Box<dyn ReadSide>,
        ]),
    };
    ReadOnlyCache { stack, consistency_checker: checker }
}

// The builder produces what `make` produces: same number of levels, checker installed iff configured.
#[kani::proof]
#[kani::unwind(8)]
fn readonly_builder_equiv() {
    let with_checker: bool = kani::any();
    let mut b = ReadOnlyCacheBuilder::new();
    b.plain("/r");
    b.plain("/q");
    if with_checker {
        b.byte_equality_checker();
    }
    let ro = b.take().build();
    assert!(ro.stack.len() == 2, "KV-C13: read-only caches are kept in registration order, one level per registered directory");
    assert!(ro.consistency_checker.is_some() == with_checker, "KV-C14: the builder installs the checker on the read side");
    kani::cover!(with_checker, "checker configured");
    std::mem::forget(ro);
}
