// Shared by the Kani harnesses (harness/second_chance.rs) and by native replays of engine-M models:
// identity-tagged entries and the relational clock-queue specification (S0-S5).
#[derive(Clone, Copy)]
struct E {
    id: u8,
    rank: u8,
    accessed: bool,
}

impl Entry for E {
    type Rank = u8;
    fn rank(&self) -> u8 {
        self.rank
    }
    fn accessed(&self) -> bool {
        self.accessed
    }
}

#[allow(dead_code)]
#[derive(Clone, Copy)]
struct W {
    id: u8,
    rank: u64,
    accessed: bool,
}

impl Entry for W {
    type Rank = u64;
    fn rank(&self) -> u64 {
        self.rank
    }
    fn accessed(&self) -> bool {
        self.accessed
    }
}

trait Tagged: Entry + Copy {
    fn id(&self) -> u8;
    fn rk(&self) -> u64;
    fn acc(&self) -> bool;
}
impl Tagged for E {
    fn id(&self) -> u8 {
        self.id
    }
    fn rk(&self) -> u64 {
        self.rank as u64
    }
    fn acc(&self) -> bool {
        self.accessed
    }
}
impl Tagged for W {
    fn id(&self) -> u8 {
        self.id
    }
    fn rk(&self) -> u64 {
        self.rank
    }
    fn acc(&self) -> bool {
        self.accessed
    }
}

/// Checks the relational specification.  `N` is concrete, all loops below have constant
/// trip counts; the plan is first copied into fixed-size arrays so that every symbolic
/// index below addresses a stack array (symbolic indices into Vec buffers are what makes
/// CBMC's memory model explode).
fn check_plan<T: Tagged, const N: usize>(input: &[T; N], cap: usize, u: &Update<T>) {
    let m = if N > cap { N - cap } else { 0 };
    let evl = u.to_evict.len();
    let mbl = u.to_move_back.len();

    assert!(evl == m, "KV-C08: evicts exactly max(0, n - capacity) entries");
    if N <= cap {
        assert!(mbl == 0, "KV-C08: empty plan when n <= capacity");
        return;
    }
    assert!(evl + mbl <= N, "KV-C08: plan never larger than the input");
    if N == 0 {
        return;
    }

    // all = ev ++ mb, as (id, rank, accessed) triples in a fixed array.
    let mut ids = [0usize; N];
    let mut rks = [0u64; N];
    let mut acs = [false; N];
    let mut i = 0;
    while i < N {
        if i < evl {
            let e = u.to_evict[i];
            ids[i] = e.id() as usize;
            rks[i] = e.rk();
            acs[i] = e.acc();
        }
        i += 1;
    }
    i = 0;
    while i < N {
        if i < mbl {
            let e = u.to_move_back[i];
            let j = evl + i;
            ids[j] = e.id() as usize;
            rks[j] = e.rk();
            acs[j] = e.acc();
        }
        i += 1;
    }
    let scanned = evl + mbl;

    // (S1) every output is an input entry (same id => same rank/flag), no duplicates.
    let mut seen = [false; N];
    i = 0;
    while i < N {
        if i < scanned {
            let id = ids[i];
            assert!(id < N, "KV-C08: output entry is an input entry");
            assert!(
                rks[i] == input[id].rk() && acs[i] == input[id].acc(),
                "KV-C08: output entry is unmodified"
            );
            assert!(!seen[id], "KV-C08: no entry is duplicated in the plan");
            seen[id] = true;
        }
        i += 1;
    }

    // (S2) ev = U ++ T, mb all accessed.
    let mut ulen = 0;
    let mut in_t = false;
    i = 0;
    while i < N {
        if i < evl {
            if acs[i] {
                in_t = true;
            } else {
                assert!(!in_t, "KV-C08: accessed entries are evicted only after the un-accessed ones");
                ulen += 1;
            }
        } else if i < scanned {
            assert!(acs[i], "KV-C08: only accessed entries are reprieved");
        }
        i += 1;
    }
    let tlen = evl - ulen;

    // (S3) U sorted; R = T ++ mb = all[ulen..scanned] sorted.
    i = 1;
    while i < N {
        if i < ulen {
            assert!(rks[i - 1] <= rks[i], "KV-C08: evicted in rank order");
        }
        if i > ulen && i < scanned {
            assert!(rks[i - 1] <= rks[i], "KV-C08: reprieved entries listed in queue order");
        }
        i += 1;
    }

    if tlen > 0 {
        // (S5) a second pass happened: every input was scanned, U = all un-accessed inputs.
        assert!(scanned == N, "KV-C08: second pass only after scanning every entry");
        let mut unacc = 0;
        i = 0;
        while i < N {
            if !input[i].acc() {
                unacc += 1;
            }
            i += 1;
        }
        assert!(ulen == unacc, "KV-C08: accessed entries evicted only once every un-accessed one is gone");
    } else {
        // (S4) the first pass sufficed and stopped right after last(U).
        assert!(ulen == m && ulen > 0, "KV-C08: stops exactly at capacity");
        let last = rks[ulen - 1];
        i = 0;
        while i < N {
            if i >= evl && i < scanned {
                assert!(rks[i] <= last, "KV-C08: reprieved entries precede the last victim");
            }
            if !seen[i] {
                assert!(input[i].rk() >= last, "KV-C08: unscanned entries rank after the last victim");
            }
            i += 1;
        }
    }
}

