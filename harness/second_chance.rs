// kv-mount: src/second_chance.rs
// kv-needs: kfs
//
// C08 — the eviction planner equals the classical Second Chance queue on every input.
//
// The real `Update::new` is executed symbolically on identity-tagged entries.  One harness
// per concrete n (std's sort needs a syntactically constant length); ranks, access flags and
// the capacity (a full `usize`) are symbolic.
//
// Oracle: a *relational* specification of the classical clock queue "under some ordering of
// equally ranked entries" (so that a refactor which breaks ties differently is not an alarm):
//   with m = max(0, n - cap) and the outputs ev (to_evict), mb (to_move_back):
//   (S0) n <= cap  =>  ev, mb empty.
//   (S1) |ev| = m; ev ++ mb are pairwise distinct input entries.
//   (S2) ev = U ++ T where every U is un-accessed and every T is accessed (T = entries
//        that were reprieved in the first pass and evicted in the second);
//        every mb is accessed.
//   (S3) U is sorted by rank; R = T ++ mb (the reprieve queue) is sorted by rank.
//   (S4) if T is empty (first pass sufficed): the scan stopped at last(U): every R rank
//        <= rank(last U), every unscanned input has rank >= rank(last U) and >= every R rank.
//   (S5) if T is non-empty (second pass needed), or nothing was left unscanned: the scan
//        consumed all inputs: U = all un-accessed inputs, R = all accessed inputs.
// These are exactly the runs of "pop lowest rank; accessed => clear flag and requeue,
// otherwise evict; stop at capacity" for some tie order.
use super::*;

include!("planner_oracle.rs");

/// The evicted half of the specification only (lengths of both lists, contents of
/// `to_evict`).  Reading `to_move_back` after `Vec::drain` makes CBMC's array theory run out
/// of memory from n = 3 on (measured: Drain::drop's memmove with a symbolic length), so for
/// n = 3 the reprieve list is checked through its length only; see DESIGN.md C08.
fn check_evicted<T: Tagged, const N: usize>(input: &[T; N], cap: usize, u: &Update<T>) {
    let m = if N > cap { N - cap } else { 0 };
    let evl = u.to_evict.len();
    let mbl = u.to_move_back.len();
    assert!(evl == m, "KV-C08: evicts exactly max(0, n - capacity) entries");
    if N <= cap {
        assert!(mbl == 0, "KV-C08: empty plan when n <= capacity");
        return;
    }
    assert!(evl + mbl <= N, "KV-C08: plan never larger than the input");
    if N == 0 {
        return;
    }
    let mut ids = [0usize; N];
    let mut rks = [0u64; N];
    let mut acs = [false; N];
    let mut seen = [false; N];
    let mut i = 0;
    while i < N {
        if i < evl {
            let e = u.to_evict[i];
            ids[i] = e.id() as usize;
            rks[i] = e.rk();
            acs[i] = e.acc();
            assert!(ids[i] < N, "KV-C08: output entry is an input entry");
            assert!(
                rks[i] == input[ids[i]].rk() && acs[i] == input[ids[i]].acc(),
                "KV-C08: output entry is unmodified"
            );
            assert!(!seen[ids[i]], "KV-C08: no entry is duplicated in the plan");
            seen[ids[i]] = true;
        }
        i += 1;
    }
    let mut ulen = 0;
    let mut in_t = false;
    i = 0;
    while i < N {
        if i < evl {
            if acs[i] {
                in_t = true;
            } else {
                assert!(!in_t, "KV-C08: accessed entries are evicted only after the un-accessed ones");
                ulen += 1;
            }
        }
        i += 1;
    }
    let tlen = evl - ulen;
    i = 1;
    while i < N {
        if i < ulen {
            assert!(rks[i - 1] <= rks[i], "KV-C08: evicted in rank order");
        }
        if i > ulen && i < evl {
            assert!(rks[i - 1] <= rks[i], "KV-C08: second-pass victims in queue order");
        }
        i += 1;
    }
    let mut unacc = 0;
    let mut nacc = 0;
    i = 0;
    while i < N {
        if input[i].acc() {
            nacc += 1;
        } else {
            unacc += 1;
        }
        i += 1;
    }
    if tlen > 0 {
        assert!(ulen == unacc, "KV-C08: accessed entries evicted only once every un-accessed one is gone");
        assert!(mbl == nacc - tlen, "KV-C08: every other accessed entry is reprieved");
        i = 0;
        while i < N {
            if input[i].acc() && !seen[i] {
                assert!(input[i].rk() >= rks[evl - 1], "KV-C08: second pass takes the front of the reprieve queue");
            }
            i += 1;
        }
    } else {
        let last = rks[ulen - 1];
        let mut lo = 0;
        let mut hi = 0;
        i = 0;
        while i < N {
            if !seen[i] && !input[i].acc() {
                assert!(input[i].rk() >= last, "KV-C08: victims are the lowest-ranked un-accessed entries");
            }
            if input[i].acc() {
                if input[i].rk() < last {
                    lo += 1;
                }
                if input[i].rk() <= last {
                    hi += 1;
                }
            }
            i += 1;
        }
        assert!(mbl >= lo && mbl <= hi, "KV-C08: exactly the accessed entries scanned before the last victim are reprieved");
    }
}

// Modelling stubs (part of the claim, listed in the evidence):
//  * `Vec::new()` -> `Vec::with_capacity(8)`: same abstract value; avoids the dangling
//    `NonNull` buffer that CBMC treats as an integer address.
//  * `Vec::reserve(k)` -> assertion that the pre-allocated capacity suffices (n <= 7 < 8):
//    cuts the symbolic-size reallocation path; if growth were needed the assertion fails
//    and the run is reported inconclusive, never as a pass.
pub fn kv_vec_new<T>() -> Vec<T> {
    Vec::with_capacity(8)
}

pub fn kv_vec_reserve<T, A: std::alloc::Allocator>(v: &mut Vec<T, A>, additional: usize) {
    assert!(
        v.capacity() - v.len() >= additional,
        "KV-BOUND: Vec growth beyond the pre-allocated capacity"
    );
}

fn small_rank() -> u8 {
    let r: u8 = kani::any();
    kani::assume(r < 4);
    r
}

macro_rules! planner_covers {
    (0, $es:ident, $u:ident) => {};
    (1, $es:ident, $u:ident) => {
        kani::cover!($u.to_evict.len() == 1 && $es[0].accessed, "second pass evicts an accessed entry");
    };
    ($n:tt, $es:ident, $u:ident) => {
        kani::cover!($u.to_evict.len() == 1 && $u.to_move_back.len() == $n - 1, "reprieves before a victim");
        kani::cover!($u.to_evict.len() == $n && $es[0].accessed && $es[1].accessed, "second pass evicts accessed entries");
        kani::cover!($es[0].rank == $es[$n - 1].rank && $u.to_evict.len() == 1, "ties reachable");
    };
}

macro_rules! planner_harness {
    ($name:ident, $check:ident, $ty:ident, $n:tt, $unwind:expr, $rank:expr) => {
        #[kani::proof]
        #[kani::unwind($unwind)]
        #[kani::stub(std::vec::Vec::new, kv_vec_new)]
        #[kani::stub(std::vec::Vec::reserve, kv_vec_reserve)]
        fn $name() {
            let mut es: [$ty; $n] = [$ty { id: 0, rank: 0, accessed: false }; $n];
            let mut i = 0;
            while i < $n {
                es[i] = $ty { id: i as u8, rank: $rank, accessed: kani::any() };
                i += 1;
            }
            let cap: usize = kani::any();
            let u = Update::new(es, cap);
            $check::<$ty, $n>(&es, cap, &u);
            kani::cover!(cap == 0, "capacity 0 reachable");
            kani::cover!(cap == usize::MAX, "capacity usize::MAX reachable");
            planner_covers!($n, es, u);
            std::mem::forget(u);
        }
    };
}

planner_harness!(c08_n0, check_plan, E, 0, 3, small_rank());
planner_harness!(c08_n1, check_plan, E, 1, 4, small_rank());
planner_harness!(c08_n2, check_plan, E, 2, 5, small_rank());
planner_harness!(c08_n2_fullrank, check_plan, E, 2, 5, kani::any::<u8>());
planner_harness!(c08_n3_evicted, check_evicted, E, 3, 6, small_rank());
planner_harness!(c08_n4_evicted, check_evicted, E, 4, 7, small_rank());

// Vacuity twin: the same harness body must be able to fail.
#[kani::proof]
#[kani::unwind(5)]
#[kani::stub(std::vec::Vec::new, kv_vec_new)]
#[kani::stub(std::vec::Vec::reserve, kv_vec_reserve)]
fn c08_sanity_twin() {
    let mut es: [E; 2] = [E { id: 0, rank: 0, accessed: false }; 2];
    let mut i = 0;
    while i < 2 {
        es[i] = E { id: i as u8, rank: small_rank(), accessed: kani::any() };
        i += 1;
    }
    let cap: usize = kani::any();
    let u = Update::new(es, cap);
    check_plan::<E, 2>(&es, cap, &u);
    std::mem::forget(u);
    assert!(false, "KV-SANITY: reachable end of harness");
}

// The specification-level planner used by the prune harnesses satisfies the same oracle.
macro_rules! spec_planner_harness {
    ($name:ident, $n:tt, $unwind:expr) => {
        #[kani::proof]
        #[kani::unwind($unwind)]
        fn $name() {
            let mut es: [E; $n] = [E { id: 0, rank: 0, accessed: false }; $n];
            let mut i = 0;
            while i < $n {
                es[i] = E { id: i as u8, rank: small_rank(), accessed: kani::any() };
                i += 1;
            }
            let cap: usize = kani::any();
            let u = Update::kv_spec_new(es, cap);
            check_plan::<E, $n>(&es, cap, &u);
            kani::cover!(cap == 0, "capacity 0 reachable");
            std::mem::forget(u);
        }
    };
}
spec_planner_harness!(c08_spec_planner_n2, 2, 6);
spec_planner_harness!(c08_spec_planner_n3, 3, 6);
