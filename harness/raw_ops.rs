// kv-mount: src/raw_cache.rs
// kv-needs: kfs
//
// raw_cache primitives on KFS: model self-test, insert_or_update, insert_or_touch, touch,
// ensure_file_touched.  These are the building blocks every cache front-end goes through.
use super::*;
use crate::kv_kfs as kfs;
use crate::kv_kfs::kfs_harness;
use std::os::unix::fs::MetadataExt;
use std::os::unix::fs::PermissionsExt;

kfs_harness! {
    #[kani::unwind(48)]
    fn kfs_selftest() {
        // Metadata fabrication goes through the public accessors the crate uses.
        kfs::reset();
        kfs::mkdir(kfs::D_W);
        let n = kfs::any_published(kfs::S_A, 7);
        kfs::install(kfs::D_W, kfs::S_A, n);
        let p = kfs::path_of(kfs::D_W, kfs::S_A);
        let loc = kfs::classify(&p);
        assert!(loc.ok && loc.dir == kfs::D_W && loc.slot == kfs::S_A, "KV-MODEL: classify(path_of) round trip");
        let m = std::fs::metadata(&p);
        assert!(m.is_ok(), "KV-MODEL: fabricated Ok(Metadata) stays Ok");
        let m = m.unwrap();
        assert!(!m.is_dir() && m.file_type().is_file(), "KV-MODEL: file type");
        assert!(m.mtime() == n.mt_s && m.mtime_nsec() == n.mt_ns as i64, "KV-MODEL: mtime");
        assert!(m.atime() == n.at_s && m.atime_nsec() == n.at_ns as i64, "KV-MODEL: atime");
        assert!(m.permissions().mode() & 0o777 == 0o444, "KV-MODEL: mode");
        let ft = FileTime::from_last_modification_time(&m);
        assert!(ft.unix_seconds() == n.mt_s && ft.nanoseconds() == n.mt_ns, "KV-MODEL: filetime view");
        let t = kfs::path_of(kfs::d_shard_temp(0, 1), kfs::S_T1);
        let lt = kfs::classify(&t);
        assert!(lt.ok && lt.dir == kfs::d_shard_temp(0, 1) && lt.slot == kfs::S_T1, "KV-MODEL: sharded temp path");
        let missing = std::fs::metadata(kfs::path_of(kfs::D_W, kfs::S_B));
        assert!(missing.is_err(), "KV-MODEL: absent name");
        let e = missing.err().unwrap();
        assert!(is_absent_file_error(&e), "KV-MODEL: ENOENT is an absent-file error");
        kani::cover!(true, "selftest reachable");
        std::mem::forget(e);
    }
}

kfs_harness! {
    #[kani::unwind(48)]
    fn raw_insert_or_update_basic() {
        kfs::reset();
        kfs::k().policy = kani::any();
        kani::assume(kfs::k().policy <= 2);
        kfs::k().gran_s = kani::any();
        kani::assume(kfs::k().gran_s <= 2);
        kfs::mkdir(kfs::D_W);
        kfs::mkdir(kfs::D_WT);
        let present: bool = kani::any();
        if present {
            let n = kfs::any_published(kfs::S_A, 50);
            kfs::install(kfs::D_W, kfs::S_A, n);
        }
        let src = kfs::user_source(kfs::D_WT, kfs::S_U0, kfs::S_A, 9, true);
        let from = kfs::path_of(kfs::D_WT, kfs::S_U0);
        let to = kfs::path_of(kfs::D_W, kfs::S_A);
        kfs::begin_op(kfs::OP_RAW_UPDATE, 0, 0, 0);
        let r = insert_or_update(&from, &to);
        assert!(r.is_ok(), "KV-C05: insert_or_update succeeds without interference");
        assert!(kfs::bound(kfs::D_W, kfs::S_A) == src, "KV-C11: set publishes the supplied value");
        assert!(kfs::bound(kfs::D_WT, kfs::S_U0) == kfs::NONE, "KV-C11: a successful set consumes its source");
        let n = kfs::k().ino[src as usize];
        assert!(!kfs::accessed(&n), "KV-C09: a freshly set entry is not marked as used");
        assert!(n.mode & 0o222 == 0, "KV-C19: published files have no write bits");
        assert!(kfs::tree_valid(), "KV-C02: valid at the end");
        kani::cover!(present, "overwrite reachable");
        kani::cover!(!present, "insert reachable");
        std::mem::forget(r);
    }
}

// ---- insert_or_touch (put) -------------------------------------------------------------------
kfs_harness! {
    #[kani::unwind(48)]
    fn raw_insert_or_touch_basic() {
        kfs::reset();
        kfs::k().policy = kani::any();
        kani::assume(kfs::k().policy <= 2);
        kfs::k().gran_s = kani::any();
        kani::assume(kfs::k().gran_s <= 2);
        kfs::mkdir(kfs::D_W);
        kfs::mkdir(kfs::D_WT);
        let present: bool = kani::any();
        let mut old = kfs::INODE0;
        let mut oldi = kfs::NONE;
        if present {
            old = kfs::any_published(kfs::S_A, 50);
            oldi = kfs::install(kfs::D_W, kfs::S_A, old);
        }
        let src = kfs::user_source(kfs::D_WT, kfs::S_U0, kfs::S_A, 9, true);
        let from = kfs::path_of(kfs::D_WT, kfs::S_U0);
        let to = kfs::path_of(kfs::D_W, kfs::S_A);
        kfs::begin_op(kfs::OP_RAW_TOUCHINS, 0, 0, 0);
        let r = insert_or_touch(&from, &to);
        assert!(r.is_ok(), "KV-C05: insert_or_touch succeeds without interference");
        assert!(kfs::bound(kfs::D_WT, kfs::S_U0) == kfs::NONE, "KV-C11: a successful put consumes its source");
        if present {
            assert!(kfs::bound(kfs::D_W, kfs::S_A) == oldi, "KV-C04: put never replaces an existing entry");
            let n = kfs::k().ino[oldi as usize];
            assert!(n.content == 50, "KV-C09: put on an existing key leaves its content alone");
            assert!(n.mt_s == old.mt_s && n.mt_ns == old.mt_ns, "KV-C09: put on an existing key keeps its queue position");
            assert!(kfs::accessed(&n), "KV-C09: put on an existing key marks it as used");
        } else {
            assert!(kfs::bound(kfs::D_W, kfs::S_A) == src, "KV-C11: put inserts the supplied value when the key is absent");
            let n = kfs::k().ino[src as usize];
            assert!(!kfs::accessed(&n), "KV-C09: a freshly inserted entry is not marked as used");
            assert!(n.mode & 0o222 == 0, "KV-C19: published files have no write bits");
        }
        assert!(kfs::tree_valid(), "KV-C02: valid at the end");
        kani::cover!(present, "existing key reachable");
        kani::cover!(!present, "insert reachable");
        std::mem::forget(r);
    }
}

// ---- touch / ensure_file_touched ----------------------------------------------------------------
kfs_harness! {
    #[kani::unwind(48)]
    fn raw_touch_basic() {
        kfs::reset();
        kfs::k().policy = kani::any();
        kani::assume(kfs::k().policy <= 2);
        kfs::k().gran_s = kani::any();
        kani::assume(kfs::k().gran_s <= 2);
        kfs::mkdir(kfs::D_W);
        let present: bool = kani::any();
        let mut old = kfs::INODE0;
        let mut oldi = kfs::NONE;
        if present {
            old = kfs::any_published(kfs::S_A, 50);
            oldi = kfs::install(kfs::D_W, kfs::S_A, old);
        }
        kfs::begin_op(kfs::OP_RAW_TOUCH, 0, 0, 0);
        let r = touch(kfs::path_of(kfs::D_W, kfs::S_A));
        assert!(r.is_ok(), "KV-C05: touch succeeds without interference");
        let found = *r.as_ref().unwrap();
        assert!(found == present, "KV-C04: touch reports presence truthfully");
        if present {
            let n = kfs::k().ino[oldi as usize];
            assert!(n.mt_s == old.mt_s && n.mt_ns == old.mt_ns, "KV-C09: touch keeps the queue position");
            assert!(kfs::accessed(&n), "KV-C09: a touched entry is recognised as recently used");
            assert!(n.content == 50 && n.mode == old.mode, "KV-C09: touch leaves content and mode alone");
        }
        kani::cover!(present, "present");
        kani::cover!(!present, "absent");
        std::mem::forget(r);
    }
}

// ---- collect_cached_files == specification listing (C07a / C17) ----------------------------------
// One harness per concrete directory shape (which names exist is concrete so that the listing
// loop has a syntactically constant trip count; times, read marks and "vanished between
// readdir and stat" are symbolic).
fn listing_check(has_a: bool, has_b: bool, has_app: bool, has_sub: bool, has_temp: bool) {
    kfs::reset();
    kfs::mkdir(kfs::D_W);
    if has_temp {
        kfs::mkdir(kfs::D_WT);
    }
    let mut idx = [kfs::NONE; 4];
    if has_a {
        idx[0] = kfs::install(kfs::D_W, kfs::S_A, kfs::any_published(kfs::S_A, 1));
    }
    if has_b {
        idx[1] = kfs::install(kfs::D_W, kfs::S_B, kfs::any_published(kfs::S_B, 2));
    }
    if has_app {
        let mut n = kfs::any_published(kfs::NONE, 3);
        n.foreign = true;
        n.published = false;
        n.mode = 0o100644;
        idx[2] = kfs::install(kfs::D_W, kfs::S_APP, n);
    }
    if has_sub {
        let mut n = kfs::any_published(kfs::NONE, 0);
        n.is_dir = true;
        n.foreign = true;
        n.published = false;
        idx[3] = kfs::install(kfs::D_W, kfs::S_SUB, n);
    }
    // a concurrent eviction may remove `a` between readdir and stat
    kfs::k().vanish_a_at_dstat = kani::any();
    let vanish = kfs::k().vanish_a_at_dstat;
    kfs::begin_op(kfs::OP_RAW_COLLECT, 0, 0, 0);
    let r = collect_cached_files(&kfs::path_of(kfs::D_W, kfs::NONE));
    assert!(r.is_ok(), "KV-C05: listing succeeds, entries that vanish are skipped");
    let (files, count) = r.unwrap();
    assert!(count >= files.len() as u64, "KV-C07: the estimate is at least the number of candidates");
    let mut seen = [0u8; 6];
    let mut i = 0;
    while i < 3 {
        if i < files.len() {
            let (d, s) = kfs::dirent_id(&files[i].entry);
            assert!(d == kfs::D_W && (s as usize) < 6, "KV-C07: listed entries belong to the directory");
            seen[s as usize] += 1;
            if s == kfs::S_A || s == kfs::S_B {
                let n = kfs::k().ino[idx[s as usize] as usize];
                assert!(files[i].mtime.unix_seconds() == n.mt_s && files[i].mtime.nanoseconds() == n.mt_ns,
                        "KV-C07: queue position is the file's mtime");
                assert!(files[i].accessed == kfs::accessed(&n), "KV-C07: read mark is atime >= mtime");
            }
        }
        i += 1;
    }
    assert!(files.len() <= 3, "KV-C07: nothing is listed twice");
    let a_listed = has_a && !vanish;
    assert!(seen[0] == a_listed as u8, "KV-C07: every cached file is listed exactly once, vanished ones are skipped");
    assert!(seen[1] == has_b as u8, "KV-C07: every cached file is listed exactly once");
    assert!(seen[3] == 0 && seen[5] == 0, "KV-C07: subdirectories are never candidates");
    // whether a dot-prefixed application file is listed is an implementation choice; what must
    // hold is that it is never deleted or re-stamped (KV-C17, checked on prune below)
    assert!(seen[2] <= has_app as u8, "KV-C07: nothing is listed twice");
    let keyfiles = has_a as u64 + has_b as u64;
    assert!(count >= keyfiles - (has_a && vanish) as u64, "KV-C07: the estimate covers every cached file");
    assert!(count <= keyfiles + has_app as u64, "KV-C07: subdirectories are not counted");
    kani::cover!(files.len() as u64 == keyfiles, "all cached files listed");
    kani::cover!(has_a && vanish, "entry vanished between readdir and stat");
    std::mem::forget(files);
}

kfs_harness! {
    #[kani::unwind(48)]
    fn raw_collect_ab_sub() {
        listing_check(true, true, false, true, false);
    }
}

kfs_harness! {
    #[kani::unwind(48)]
    fn raw_collect_a_temp() {
        listing_check(true, false, false, false, true);
    }
}

kfs_harness! {
    #[kani::unwind(48)]
    fn raw_collect_a_app() {
        listing_check(true, false, true, false, false);
    }
}

kfs_harness! {
    #[kani::unwind(48)]
    fn raw_collect_empty_temp() {
        // (the "vanished" cover is meaningless here)
        kfs::reset();
        kfs::mkdir(kfs::D_W);
        kfs::mkdir(kfs::D_WT);
        let r = collect_cached_files(&kfs::path_of(kfs::D_W, kfs::NONE));
        assert!(r.is_ok(), "KV-C05: listing succeeds");
        let (files, count) = r.unwrap();
        assert!(files.is_empty() && count == 0, "KV-C07: subdirectories are neither listed nor counted");
        let r2 = collect_cached_files(&kfs::path_of(kfs::D_R, kfs::NONE));
        assert!(r2.is_err(), "KV-C05: a missing directory is reported to the caller (who treats it as empty)");
        kani::cover!(true, "reachable");
        std::mem::forget(files);
        std::mem::forget(r2);
    }
}

// ---- apply_update performs exactly the plan (C07 d2) ---------------------------------------------
fn cached(slot: u8, n: &kfs::Inode) -> CachedFile {
    CachedFile {
        entry: kfs::make_dirent(kfs::D_W, slot, false),
        mtime: FileTime::from_unix_time(n.mt_s, n.mt_ns),
        accessed: kfs::accessed(n),
    }
}

kfs_harness! {
    #[kani::unwind(48)]
    fn raw_apply_update_evict_a_moveback_b() {
        kfs::reset();
        kfs::k().gran_s = kani::any();
        kani::assume(kfs::k().gran_s <= 2);
        kfs::mkdir(kfs::D_W);
        let na = kfs::any_published(kfs::S_A, 1);
        let nb = kfs::any_published(kfs::S_B, 2);
        let ia = kfs::install(kfs::D_W, kfs::S_A, na);
        let ib = kfs::install(kfs::D_W, kfs::S_B, nb);
        let plan = second_chance::Update { to_evict: vec![cached(kfs::S_A, &na)], to_move_back: vec![cached(kfs::S_B, &nb)] };
        // files may vanish between the listing and the update (another process evicted them)
        let a_gone: bool = kani::any();
        let b_gone: bool = kani::any();
        if a_gone { kfs::k().dir[kfs::D_W as usize].slot[kfs::S_A as usize] = kfs::NONE; }
        if b_gone { kfs::k().dir[kfs::D_W as usize].slot[kfs::S_B as usize] = kfs::NONE; }
        let before_s = kfs::k().now_s;
        kfs::begin_op(kfs::OP_RAW_APPLY, 1, a_gone as i64, b_gone as i64);
        let r = apply_update(kfs::path_of(kfs::D_W, kfs::NONE), plan);
        assert!(r.is_ok(), "KV-C05: maintenance skips what has vanished");
        assert!(kfs::bound(kfs::D_W, kfs::S_A) == kfs::NONE, "KV-C07: every victim is deleted");
        if !b_gone {
            assert!(kfs::bound(kfs::D_W, kfs::S_B) == ib, "KV-C07: reprieved files are not deleted");
            let n = kfs::k().ino[ib as usize];
            assert!(n.mt_s >= before_s - 1, "KV-C07: reprieved files move to the back of the queue (mtime := now)");
            assert!(!kfs::accessed(&n), "KV-C07: reprieved files have their read mark cleared");
            assert!(n.content == 2 && n.mode == nb.mode, "KV-C07: reprieve does not touch content or mode");
        }
        let st = kfs::k();
        assert!(st.kind_calls[kfs::C_UNLINK as usize] == 1 && st.kind_calls[kfs::C_UTIMES as usize] == 1 && st.calls == 2,
                "KV-C07: the plan is applied as exactly one unlink per victim and one utimens per reprieved file");
        kani::cover!(a_gone && b_gone, "both vanished");
        kani::cover!(!a_gone && !b_gone, "both present");
        std::mem::forget(r);
    }
}

// Plans that re-queue two or more files (and the case where an earlier one has vanished) are
// decided on the MIR of apply_update by engine M (unit c07_apply_glue): under CBMC the second
// iteration of the loop over a Vec<CachedFile> with a partially symbolic tree did not finish
// in 25 minutes.

// collect + (capacity 0: every candidate is a victim, C08) + apply_update, on real code: the
// end-to-end effect of `prune(dir, 0)` on a directory holding an application dot-file.
fn prune_pieces_cap0(has_a: bool) {
    kfs::reset();
    kfs::mkdir(kfs::D_W);
    let mut napp = kfs::any_published(kfs::NONE, 3);
    napp.foreign = true;
    napp.published = false;
    napp.mode = 0o100644;
    let iapp = kfs::install(kfs::D_W, kfs::S_APP, napp);
    if has_a {
        kfs::install(kfs::D_W, kfs::S_A, kfs::any_published(kfs::S_A, 1));
    }
    kfs::begin_op(kfs::OP_PRUNE_CAP0, 0, 0, 0);
    let r = collect_cached_files(&kfs::path_of(kfs::D_W, kfs::NONE));
    assert!(r.is_ok(), "KV-C05: listing succeeds");
    let (files, _count) = r.unwrap();
    // Second Chance with capacity 0 evicts every candidate (C08: |to_evict| = n - 0).  The plan is
    // rebuilt entry by entry from what the real listing returned, with concrete names (a name
    // that reaches PathBuf::push through a symbolic identity makes std's path parser unwind to
    // its bound: measured).
    let mut listed_app = false;
    let mut listed_a = false;
    let mut i = 0;
    while i < 2 {
        if i < files.len() {
            let (_d, s) = kfs::dirent_id(&files[i].entry);
            if s == kfs::S_APP {
                listed_app = true;
            }
            if s == kfs::S_A {
                listed_a = true;
            }
        }
        i += 1;
    }
    std::mem::forget(files);
    // one apply_update call per concrete plan (the plan's names must be syntactically constant)
    let dir = kfs::path_of(kfs::D_W, kfs::NONE);
    if listed_app && listed_a {
        let na = kfs::k().ino[kfs::bound(kfs::D_W, kfs::S_A) as usize];
        let plan = second_chance::Update { to_evict: vec![cached(kfs::S_A, &na), cached(kfs::S_APP, &napp)], to_move_back: Vec::new() };
        let r2 = apply_update(dir, plan);
        assert!(r2.is_ok(), "KV-C05: applying the plan succeeds");
        std::mem::forget(r2);
    } else if listed_app {
        let plan = second_chance::Update { to_evict: vec![cached(kfs::S_APP, &napp)], to_move_back: Vec::new() };
        let r2 = apply_update(dir, plan);
        assert!(r2.is_ok(), "KV-C05: applying the plan succeeds");
        std::mem::forget(r2);
    } else if listed_a {
        let na = kfs::k().ino[kfs::bound(kfs::D_W, kfs::S_A) as usize];
        let plan = second_chance::Update { to_evict: vec![cached(kfs::S_A, &na)], to_move_back: Vec::new() };
        let r2 = apply_update(dir, plan);
        assert!(r2.is_ok(), "KV-C05: applying the plan succeeds");
        std::mem::forget(r2);
    }
    let st = kfs::k();
    assert!(kfs::bound(kfs::D_W, kfs::S_APP) == iapp && !st.ino[iapp as usize].touched,
            "KV-C17: application dot-files next to cached entries are never removed or re-stamped by maintenance");
    if has_a {
        assert!(listed_a && kfs::bound(kfs::D_W, kfs::S_A) == kfs::NONE, "KV-C07: with capacity 0 every cached file is evicted");
    }
    kani::cover!(true, "reachable");
}

kfs_harness! {
    #[kani::unwind(48)]
    fn raw_prune_pieces_dotfile_only() {
        prune_pieces_cap0(false);
    }
}

kfs_harness! {
    #[kani::unwind(48)]
    fn raw_prune_pieces_dotfile_and_a() {
        prune_pieces_cap0(true);
    }
}

kfs_harness! {
    #[kani::unwind(48)]
    fn raw_ops_sanity_twin() {
        kfs::reset();
        kfs::mkdir(kfs::D_W);
        kfs::mkdir(kfs::D_WT);
        let _src = kfs::user_source(kfs::D_WT, kfs::S_U0, kfs::S_A, 9, true);
        let r = insert_or_touch(kfs::path_of(kfs::D_WT, kfs::S_U0), kfs::path_of(kfs::D_W, kfs::S_A));
        std::mem::forget(r);
        assert!(false, "KV-SANITY: reachable end of harness");
    }
}
