// KFS — the symbolic in-memory filesystem substituted for std::fs / filetime / tempfile entry
// points with #[kani::stub].  Mounted at the crate root of the scratch copy as `kv_kfs`.
//
// Every stub here is part of the claim (DESIGN.md §2.2).  The model is deliberately small:
// fixed arrays, a fixed universe of paths, one step of POSIX semantics per call, ghost fields
// for the properties' oracles.  A path outside the universe is reported (KV-C16) rather than
// silently mapped.
#![allow(dead_code, static_mut_refs, unused_variables, unused_imports, clippy::all)]

use std::ffi::OsString;
use std::fs::{DirEntry, File, Metadata, Permissions, ReadDir};
use std::io;
use std::io::SeekFrom;
use std::os::fd::{AsRawFd, FromRawFd, OwnedFd};
use std::os::unix::ffi::{OsStrExt, OsStringExt};
use std::os::unix::fs::PermissionsExt;
use std::path::{Path, PathBuf};
use std::sync::Arc;
use std::time::{Duration, SystemTime};

use crate::kv_layout as L;
use filetime::FileTime;

pub const NI: usize = 10; // inodes
pub const ND: usize = 21; // directories
pub const NS: usize = 5; // name slots per directory
pub const NFD: usize = 6; // descriptors
pub const NONE: u8 = 0xff;

// ---- directory ids -------------------------------------------------------------------------
// plain roots  'w','r','q'  -> base = 2*pr, temp = 2*pr+1
// sharded roots 's','p'     -> root = 6+7*sr, shard k in 0..3: 6+7*sr+1+2k, its temp +1
// external dir '/x'         -> 20
pub const D_W: u8 = 0;
pub const D_WT: u8 = 1;
pub const D_R: u8 = 2;
pub const D_RT: u8 = 3;
pub const D_Q: u8 = 4;
pub const D_QT: u8 = 5;
pub const D_S: u8 = 6;
pub const D_P: u8 = 13;
pub const D_X: u8 = 20;
pub const fn d_shard(sr: u8, k: u8) -> u8 {
    6 + 7 * sr + 1 + 2 * k
}
pub const fn d_shard_temp(sr: u8, k: u8) -> u8 {
    d_shard(sr, k) + 1
}

pub const KIND_CACHE: u8 = 0;
pub const KIND_TEMP: u8 = 1;
pub const KIND_SROOT: u8 = 2;
pub const KIND_EXT: u8 = 3;

pub fn dir_kind(d: u8) -> u8 {
    if d == D_X {
        KIND_EXT
    } else if d < 6 {
        if d % 2 == 0 {
            KIND_CACHE
        } else {
            KIND_TEMP
        }
    } else if d == D_S || d == D_P {
        KIND_SROOT
    } else {
        let rel = if d > D_P { d - D_P - 1 } else { d - D_S - 1 };
        if rel % 2 == 0 {
            KIND_CACHE
        } else {
            KIND_TEMP
        }
    }
}

/// The temp directory belonging to cache directory `d` (d must be KIND_CACHE).
pub fn temp_of(d: u8) -> u8 {
    d + 1
}
/// Parent directory (NONE for roots).
pub fn parent_of(d: u8) -> u8 {
    match dir_kind(d) {
        KIND_TEMP => d - 1,
        KIND_CACHE => {
            if d < 6 {
                NONE
            } else if d > D_P {
                D_P
            } else {
                D_S
            }
        }
        _ => NONE,
    }
}

// ---- slots ---------------------------------------------------------------------------------
// cache dir : 0 "ka", 1 "kb", 2 ".p" (application dot-file), 3 "sd" (stray subdirectory), 4 "kc"
// temp dir  : 0 "t0", 1 "t1", 2 "t2", 3 "u0" (caller-supplied source), 4 "o0" (old debris)
// ext dir   : 0 "u0", 1 "u1"
pub const S_A: u8 = 0;
pub const S_B: u8 = 1;
pub const S_APP: u8 = 2;
pub const S_SUB: u8 = 3;
pub const S_C: u8 = 4;
pub const S_T0: u8 = 0;
pub const S_T1: u8 = 1;
pub const S_T2: u8 = 2;
pub const S_U0: u8 = 3;
pub const S_OLD: u8 = 4;

/// All names have the same length (2 bytes) so that a path built from a symbolic slot has a
/// syntactically constant length (DESIGN.md §1, rule 3).
pub fn slot_name(kind: u8, s: u8) -> [u8; 2] {
    match kind {
        KIND_CACHE => match s {
            0 => *b"ka",
            1 => *b"kb",
            2 => *b".p",
            3 => *b"sd",
            _ => *b"kc",
        },
        KIND_TEMP => match s {
            0 => *b"t0",
            1 => *b"t1",
            2 => *b"t2",
            3 => *b"u0",
            _ => *b"o0",
        },
        _ => match s {
            0 => *b"u0",
            _ => *b"u1",
        },
    }
}

pub const KEY_A: &str = "ka";
pub const KEY_B: &str = "kb";
pub const KEY_C: &str = "kc";

// ---- state ---------------------------------------------------------------------------------
#[derive(Clone, Copy)]
pub struct Inode {
    pub used: bool,
    pub nlink: u8,
    pub opens: u8,
    pub is_dir: bool,
    pub mode: u32,
    pub mt_s: i64,
    pub mt_ns: u32,
    pub at_s: i64,
    pub at_ns: u32,
    // ghost
    pub content: u8,   // value id
    pub key_tag: u8,   // slot id of the key the value was written for (NONE: none)
    pub complete: bool, // every byte of the value has been written
    pub dirty: bool,   // written since the last successful fsync
    pub sync_failed: bool,
    pub published: bool, // has ever been linked under a key name
    pub own: bool,     // created by / handed to the operation under test
    pub foreign: bool, // application data (dot-file, stray subdirectory): must never be touched
    pub touched: bool, // any metadata or name change by the operation under test (for C15/C17)
}

pub const INODE0: Inode = Inode {
    used: false,
    nlink: 0,
    opens: 0,
    is_dir: false,
    mode: 0,
    mt_s: 0,
    mt_ns: 0,
    at_s: 0,
    at_ns: 0,
    content: 0,
    key_tag: NONE,
    complete: false,
    dirty: false,
    sync_failed: false,
    published: false,
    own: false,
    foreign: false,
    touched: false,
};

#[derive(Clone, Copy)]
pub struct Dir {
    pub exists: bool,
    pub slot: [u8; NS],
    pub readonly_root: bool, // belongs to a read-only cache (C15)
    pub shared: bool,        // other participants may act here (rely)
    pub created_by_us: bool,
    pub mutated: bool, // any name added/removed/rebound by the operation under test
}

pub const DIR0: Dir = Dir {
    exists: false,
    slot: [NONE; NS],
    readonly_root: false,
    shared: false,
    created_by_us: false,
    mutated: false,
};

#[derive(Clone, Copy)]
pub struct Fd {
    pub open: bool,
    pub ino: u8,
    pub off: u8, // 0 = start of file
    pub writable: bool,
}
pub const FD0: Fd = Fd { open: false, ino: NONE, off: 0, writable: false };

// call kinds (trace / counters)
pub const C_STAT: u8 = 0;
pub const C_CHMOD: u8 = 1;
pub const C_RENAME: u8 = 2;
pub const C_LINK: u8 = 3;
pub const C_UNLINK: u8 = 4;
pub const C_MKDIR: u8 = 5;
pub const C_READDIR: u8 = 6;
pub const C_OPEN: u8 = 7;
pub const C_FSTAT: u8 = 8;
pub const C_FSYNC: u8 = 9;
pub const C_UTIMES: u8 = 10;
pub const C_FUTIMES: u8 = 11;
pub const C_MKTEMP: u8 = 12;
pub const C_FCHMOD: u8 = 13;
pub const C_DSTAT: u8 = 14;
pub const C_COPY: u8 = 15;
pub const C_READ: u8 = 16;
pub const NCALLKINDS: usize = 17;

pub const POLICY_STRICT: u8 = 0;
pub const POLICY_RELATIME: u8 = 1;
pub const POLICY_NOATIME: u8 = 2;

pub const ENV_NONE: u8 = 0;
pub const ENV_FULL: u8 = 1; // rebinding, unbinding (eviction / external deletion), mkdir, restamping
pub const ENV_NO_UNBIND: u8 = 2; // eviction out of play (C04)
pub const ENV_MKDIR_ONLY: u8 = 4; // peers only create directories
pub const ENV_PUT_ONLY: u8 = 3; // peers only put/ensure: a present key is never rebound or removed

pub const TRACE_LEN: usize = 12;

pub struct Kfs {
    pub ino: [Inode; NI],
    pub dir: [Dir; ND],
    pub fd: [Fd; NFD],
    // clock
    pub now_s: i64,
    pub now_ns: u32,
    // configuration
    pub policy: u8,
    pub gran_s: u8, // 0 => 1 ns granularity, 1 => 1 s, 2 => 2 s
    pub env: u8,
    pub auto_sync: bool, // C03 publication rule armed
    pub fail_at: u16,    // call index to fail (0xffff: never)
    pub fail_errno: i32,
    pub failed: bool, // the injected fault has fired
    // counters
    pub calls: u16,
    pub kind_calls: [u8; NCALLKINDS],
    pub open_now: u8,
    pub open_peak: u8,
    pub trace_kind: [u8; TRACE_LEN],
    pub trace_dir: [u8; TRACE_LEN],
    pub trace_slot: [u8; TRACE_LEN],
    pub trace_n: u8,
    // findings recorded by stubs (asserted immediately as well)
    pub stray_path: bool,
    pub env_unbound: bool, // the environment removed a published name at least once
    pub env_rebound: bool,
    pub evicted_by_us: u8, // names removed by our unlink in a cache dir
    pub tmp_seq: u8,
    pub vanish_a_at_dstat: bool, // a peer unlinks key `a` between readdir and stat
    pub op_begun: bool,
    pub env_seq: u16,
    pub stray_reads: u8,
    pub trigger_fired: bool,
    pub trigger_mode: u8, // 0: symbolic, 1: never fires, 2: always fires (only with the event stub)
}

pub static mut K: Kfs = Kfs {
    ino: [INODE0; NI],
    dir: [DIR0; ND],
    fd: [FD0; NFD],
    now_s: 0,
    now_ns: 0,
    policy: POLICY_RELATIME,
    gran_s: 0,
    env: ENV_NONE,
    auto_sync: false,
    fail_at: 0xffff,
    fail_errno: 5,
    failed: false,
    calls: 0,
    kind_calls: [0; NCALLKINDS],
    open_now: 0,
    open_peak: 0,
    trace_kind: [NONE; TRACE_LEN],
    trace_dir: [NONE; TRACE_LEN],
    trace_slot: [NONE; TRACE_LEN],
    trace_n: 0,
    stray_path: false,
    env_unbound: false,
    env_rebound: false,
    evicted_by_us: 0,
    tmp_seq: 0,
    vanish_a_at_dstat: false,
    op_begun: false,
    env_seq: 0,
    stray_reads: 0,
    trigger_fired: false,
    trigger_mode: 0,
};

// ---- scenario dump (replay support) -----------------------------------------------------------------
// When `kv_cfg::DUMP` is true (only in the re-run that produces a counterexample for replay),
// every value a native replay needs is routed through a fresh symbolic variable constrained to be
// equal to it, so that it shows up in CBMC's trace (which omits constant-propagated assignments).
pub static mut DUMPV: [u64; 1024] = [0; 1024];
pub static mut DUMPN: usize = 0;

pub const OP_PLAIN_GET: i64 = 1;
pub const OP_PLAIN_TOUCH: i64 = 2;
pub const OP_PLAIN_SET: i64 = 3;
pub const OP_PLAIN_PUT: i64 = 4;
pub const OP_RAW_UPDATE: i64 = 10;
pub const OP_RAW_TOUCHINS: i64 = 11;
pub const OP_RAW_TOUCH: i64 = 12;
pub const OP_RAW_COLLECT: i64 = 13;
pub const OP_RAW_APPLY: i64 = 14;
pub const OP_PRUNE_CAP0: i64 = 15;
pub const OP_CLEANUP_TEMP: i64 = 16;
pub const OP_SHARDED_GET: i64 = 20;
pub const OP_SHARDED_TOUCH: i64 = 21;
pub const OP_SHARDED_SET: i64 = 22;
pub const OP_SHARDED_PUT: i64 = 23;
pub const OP_STACK: i64 = 30;

pub const T_CFG: u64 = 1;
pub const T_DIR: u64 = 2;
pub const T_SLOT: u64 = 3;
pub const T_INO: u64 = 4; // + field number (0..15)
pub const T_OP: u64 = 24;
pub const T_CALL: u64 = 25;
pub const T_ENV: u64 = 26;
pub const T_FAULT: u64 = 27;
pub const T_ENVINO: u64 = 32; // + field number

pub fn dump(tag: u64, idx: u64, value: i64) {
    if crate::kv_cfg::DUMP {
        let enc: u64 = (1u64 << 63) | (tag << 56) | ((idx & 0xfff) << 44) | (((value + (1i64 << 43)) as u64) & ((1u64 << 44) - 1));
        let v: u64 = kani::any();
        kani::assume(v == enc);
        unsafe {
            if DUMPN < 1024 {
                DUMPV[DUMPN] = v;
                DUMPN += 1;
            }
        }
    }
}

fn dump_inode(tag: u64, idx: u64, n: &Inode) {
    dump(tag, idx, n.used as i64);
    dump(tag + 1, idx, n.nlink as i64);
    dump(tag + 2, idx, n.is_dir as i64);
    dump(tag + 3, idx, n.mode as i64);
    dump(tag + 4, idx, n.mt_s);
    dump(tag + 5, idx, n.mt_ns as i64);
    dump(tag + 6, idx, n.at_s);
    dump(tag + 7, idx, n.at_ns as i64);
    dump(tag + 8, idx, n.content as i64);
    dump(tag + 9, idx, n.key_tag as i64);
    dump(tag + 10, idx, n.complete as i64);
    dump(tag + 11, idx, n.dirty as i64);
    dump(tag + 12, idx, n.own as i64);
    dump(tag + 13, idx, n.foreign as i64);
    dump(tag + 14, idx, n.published as i64);
}

/// Called by harnesses right before the operation under test: records the whole pre-state.
pub fn begin_op(opcode: i64, a0: i64, a1: i64, a2: i64) {
    let st = k();
    st.op_begun = true;
    if !crate::kv_cfg::DUMP {
        return;
    }
    dump(T_CFG, 0, st.policy as i64);
    dump(T_CFG, 1, st.gran_s as i64);
    dump(T_CFG, 2, st.env as i64);
    dump(T_CFG, 3, st.auto_sync as i64);
    dump(T_CFG, 4, st.fail_at as i64);
    dump(T_CFG, 5, st.fail_errno as i64);
    dump(T_CFG, 6, st.now_s);
    dump(T_CFG, 7, st.now_ns as i64);
    let mut d = 0;
    while d < ND {
        let dd = &st.dir[d];
        dump(T_DIR, d as u64, (dd.exists as i64) | ((dd.readonly_root as i64) << 1) | ((dd.shared as i64) << 2));
        if dd.exists {
            let mut s = 0;
            while s < NS {
                dump(T_SLOT, (d * 8 + s) as u64, dd.slot[s] as i64);
                s += 1;
            }
        }
        d += 1;
    }
    let mut i = 0;
    while i < NI {
        if st.ino[i].used {
            dump_inode(T_INO, i as u64, &st.ino[i]);
        }
        i += 1;
    }
    dump(T_OP, 0, opcode);
    dump(T_OP, 1, a0);
    dump(T_OP, 2, a1);
    dump(T_OP, 3, a2);
}

pub fn k() -> &'static mut Kfs {
    unsafe { &mut K }
}

// ---- errors --------------------------------------------------------------------------------
pub const ENOENT: i32 = 2;
pub const EIO: i32 = 5;
pub const EACCES: i32 = 13;
pub const EEXIST: i32 = 17;
pub const ENOTDIR: i32 = 20;
pub const EMFILE: i32 = 24;
pub const ENOSPC: i32 = 28;
pub const ESTALE: i32 = 116;
pub const EXDEV: i32 = 18;

pub fn err(code: i32) -> io::Error {
    io::Error::from_raw_os_error(code)
}

// ---- path classification ------------------------------------------------------------------
#[derive(Clone, Copy)]
pub struct Loc {
    pub ok: bool,
    pub dir: u8,
    pub slot: u8, // NONE => the directory itself
}

fn comp_eq(b: &[u8], start: usize, len: usize, lit: &[u8]) -> bool {
    if len != lit.len() {
        return false;
    }
    let mut i = 0;
    while i < lit.len() {
        if b[start + i] != lit[i] {
            return false;
        }
        i += 1;
    }
    true
}

fn slot_of(b: &[u8], start: usize, len: usize, kind: u8) -> u8 {
    let mut s = 0u8;
    while (s as usize) < NS {
        if (kind != KIND_EXT || s < 2) && comp_eq(b, start, len, &slot_name(kind, s)) {
            return s;
        }
        s += 1;
    }
    NONE
}

/// "/R[/c1[/c2[/c3]]]" -> location.  No normalisation: a component "." or ".." or an empty
/// component is outside the universe (and reported by the caller).
pub fn classify(p: &Path) -> Loc {
    let b = p.as_os_str().as_bytes();
    let bad = Loc { ok: false, dir: NONE, slot: NONE };
    let n = b.len();
    if n < 2 || n > 40 || b[0] != b'/' {
        return bad;
    }
    // component boundaries
    let mut st = [0usize; 4];
    let mut ln = [0usize; 4];
    let mut nc = 0usize;
    let mut i = 1usize;
    let mut cur = 1usize;
    while i <= n {
        if i == n || b[i] == b'/' {
            if nc >= 4 {
                return bad;
            }
            st[nc] = cur;
            ln[nc] = i - cur;
            if ln[nc] == 0 {
                return bad;
            }
            nc += 1;
            cur = i + 1;
        }
        i += 1;
    }
    if ln[0] != 1 {
        return bad;
    }
    let r = b[1];
    let (plain, base): (bool, u8) = match r {
        b'w' => (true, D_W),
        b'r' => (true, D_R),
        b'q' => (true, D_Q),
        b's' => (false, D_S),
        b'p' => (false, D_P),
        b'x' => {
            if nc == 1 {
                return Loc { ok: true, dir: D_X, slot: NONE };
            }
            if nc == 2 {
                let s = slot_of(b, st[1], ln[1], KIND_EXT);
                return Loc { ok: s != NONE, dir: D_X, slot: s };
            }
            return bad;
        }
        _ => return bad,
    };
    let mut ci = 1; // next component index
    let mut d = base;
    if !plain {
        if nc == 1 {
            return Loc { ok: true, dir: base, slot: NONE };
        }
        // shard component ".kismet_000k"
        if ln[1] != 12 || !comp_eq(b, st[1], 11, b".kismet_000") {
            return bad;
        }
        let kch = b[st[1] + 11];
        if kch < b'0' || kch > b'2' {
            return bad;
        }
        d = base + 1 + 2 * (kch - b'0');
        ci = 2;
    }
    if nc == ci {
        return Loc { ok: true, dir: d, slot: NONE };
    }
    // inside cache dir d
    if comp_eq(b, st[ci], ln[ci], b".kismet_temp") {
        let t = d + 1;
        if nc == ci + 1 {
            return Loc { ok: true, dir: t, slot: NONE };
        }
        if nc == ci + 2 {
            let s = slot_of(b, st[ci + 1], ln[ci + 1], KIND_TEMP);
            return Loc { ok: s != NONE, dir: t, slot: s };
        }
        return bad;
    }
    if nc == ci + 1 {
        let s = slot_of(b, st[ci], ln[ci], KIND_CACHE);
        return Loc { ok: s != NONE, dir: d, slot: s };
    }
    bad
}

pub fn path_of(d: u8, slot: u8) -> PathBuf {
    let mut v: Vec<u8> = Vec::with_capacity(48);
    let (root, rel): (u8, u8) = if d == D_X {
        (b'x', 0)
    } else if d < 6 {
        ([b'w', b'r', b'q'][(d / 2) as usize], d % 2)
    } else if d >= D_P {
        (b'p', d - D_P)
    } else {
        (b's', d - D_S)
    };
    v.push(b'/');
    v.push(root);
    if d >= 6 && d != D_X && rel > 0 {
        let kk = (rel - 1) / 2;
        v.extend_from_slice(b"/.kismet_000");
        v.push(b'0' + kk);
        if (rel - 1) % 2 == 1 {
            v.extend_from_slice(b"/.kismet_temp");
        }
    } else if d < 6 && rel == 1 {
        v.extend_from_slice(b"/.kismet_temp");
    }
    if slot != NONE {
        let nm = slot_name(dir_kind(d), slot);
        v.push(b'/');
        v.push(nm[0]);
        v.push(nm[1]);
    }
    PathBuf::from(OsString::from_vec(v))
}

// ---- scheduling point: counters, crash-point invariant, environment, fault injection ---------
fn trace(kind: u8, dir: u8, slot: u8) {
    let s = k();
    if (s.trace_n as usize) < TRACE_LEN {
        s.trace_kind[s.trace_n as usize] = kind;
        s.trace_dir[s.trace_n as usize] = dir;
        s.trace_slot[s.trace_n as usize] = slot;
        s.trace_n += 1;
    }
}

/// Validity of one key-named entry (the crash-safety / reader-visible invariant V).
pub fn entry_valid(d: u8, s: u8) -> bool {
    let st = k();
    let i = st.dir[d as usize].slot[s as usize];
    if i == NONE {
        return true;
    }
    let n = &st.ino[i as usize];
    n.used && !n.is_dir && n.complete && (n.mode & 0o222) == 0 && n.key_tag == s
}

pub fn key_slot(s: u8) -> bool {
    s == S_A || s == S_B || s == S_C
}

/// V for the whole tree: every key-named file is a complete read-only value for that key.
/// (Cache directories of the universe that harnesses use: the three plain roots and the shards
/// of the first sharded root; nothing else can be written - every mutating stub classifies its
/// target and rejects paths outside the universe.)
pub fn tree_valid() -> bool {
    let dirs = [D_W, D_R, D_Q, d_shard(0, 0), d_shard(0, 1), d_shard(0, 2)];
    let mut ok = true;
    let mut j = 0;
    while j < dirs.len() {
        let d = dirs[j];
        ok = ok && entry_valid(d, S_A) && entry_valid(d, S_B) && entry_valid(d, S_C);
        j += 1;
    }
    ok
}

fn any_time() -> (i64, u32) {
    let s: i64 = kani::any();
    let ns: u32 = kani::any();
    kani::assume(s >= 0 && s < (1i64 << 40));
    kani::assume(ns < 1_000_000_000);
    (s, ns)
}

fn free_inode() -> u8 {
    let st = k();
    let mut i = 0u8;
    while (i as usize) < NI {
        let n = &st.ino[i as usize];
        if !n.used || (n.nlink == 0 && n.opens == 0 && !n.own) {
            return i;
        }
        i += 1;
    }
    NONE
}

/// Records one environment action: it happens right before our call number `calls + 1`.
fn env_dump(d: u8, s: u8, action: i64, n: Option<&Inode>) {
    if !crate::kv_cfg::DUMP {
        return;
    }
    let st = k();
    let seq = st.env_seq as u64;
    st.env_seq += 1;
    dump(T_ENV, seq, ((st.calls as i64) + 1) | ((d as i64) << 16) | ((s as i64) << 24) | (action << 32));
    if let Some(n) = n {
        dump_inode(T_ENVINO, seq, n);
    }
}

/// One rely step: the shared part of the filesystem moves to any state other participants'
/// protocol steps can produce (DESIGN.md §2.3).
fn env_step() {
    let st = k();
    if st.env == ENV_NONE {
        return;
    }
    let mut d = 0u8;
    while (d as usize) < ND {
        if st.dir[d as usize].shared {
            let kind = dir_kind(d);
            if !st.dir[d as usize].exists {
                // directories may appear (a peer's create_dir_all), never disappear
                if kani::any() {
                    st.dir[d as usize].exists = true;
                    let p = parent_of(d);
                    if p != NONE {
                        st.dir[p as usize].exists = true;
                    }
                    env_dump(d, NONE, 4, None);
                }
            } else if kind == KIND_CACHE && st.env != ENV_MKDIR_ONLY {
                let mut s = 0u8;
                while s < 2 {
                    let cur = st.dir[d as usize].slot[s as usize];
                    let choice: u8 = kani::any();
                    if choice == 1 && st.env == ENV_FULL {
                        // eviction by a peer's maintenance, or external deletion
                        if cur != NONE {
                            st.ino[cur as usize].nlink -= 1;
                            st.dir[d as usize].slot[s as usize] = NONE;
                            st.env_unbound = true;
                            env_dump(d, s, 1, None);
                        }
                    } else if choice == 2 {
                        // a peer's set/put publishes another complete value for this key
                        // (ENV_PUT_ONLY: only while the key is absent)
                        if cur == NONE || st.env == ENV_FULL || st.env == ENV_NO_UNBIND {
                            let f = free_inode();
                            if f != NONE {
                                let (ms, mns) = any_time();
                                let (as_, ans) = any_time();
                                let c: u8 = kani::any();
                                kani::assume(c >= 100);
                                if cur != NONE {
                                    st.ino[cur as usize].nlink -= 1;
                                }
                                st.ino[f as usize] = Inode {
                                    used: true,
                                    nlink: 1,
                                    opens: 0,
                                    is_dir: false,
                                    mode: 0o100444,
                                    mt_s: ms,
                                    mt_ns: mns,
                                    at_s: as_,
                                    at_ns: ans,
                                    content: c,
                                    key_tag: s,
                                    complete: true,
                                    dirty: false,
                                    sync_failed: false,
                                    published: true,
                                    own: false,
                                    foreign: false,
                                    touched: false,
                                };
                                st.dir[d as usize].slot[s as usize] = f;
                                st.env_rebound = true;
                                let copy = st.ino[f as usize];
                                env_dump(d, s, 2, Some(&copy));
                            }
                        }
                    } else if choice == 3 && st.env != ENV_PUT_ONLY {
                        // a peer touches / re-queues the entry
                        if cur != NONE && !st.ino[cur as usize].own {
                            let (ms, mns) = any_time();
                            let (as_, ans) = any_time();
                            st.ino[cur as usize].mt_s = ms;
                            st.ino[cur as usize].mt_ns = mns;
                            st.ino[cur as usize].at_s = as_;
                            st.ino[cur as usize].at_ns = ans;
                            let copy = st.ino[cur as usize];
                            env_dump(d, s, 3, Some(&copy));
                        }
                    }
                    s += 1;
                }
            }
        }
        d += 1;
    }
}

/// Called at the start of every modelled system call.
/// Returns Some(errno) when the injected fault fires at this call.
/// Whether every call boundary re-validates the whole tree (the crash-point invariant of C01/C02).
/// Harnesses whose subject lies above the publication protocol switch it off (publication itself
/// is still checked at the publishing call, and the tree once more when the operation returns).
pub static mut CRASH_CHECKS: bool = true;

fn tick(kind: u8, dir: u8, slot: u8) -> Option<i32> {
    let st = k();
    // crash point: the state between the previous call and this one is what a crash leaves
    if unsafe { CRASH_CHECKS } {
        assert!(tree_valid(), "KV-C01+C02: every key-named file is a complete read-only value at every call boundary");
    }
    env_step();
    trace(kind, dir, slot);
    st.calls += 1;
    dump(T_CALL, st.calls as u64, (kind as i64) | ((dir as i64) << 8) | ((slot as i64) << 16));
    if (kind as usize) < NCALLKINDS && st.kind_calls[kind as usize] < 250 {
        st.kind_calls[kind as usize] += 1;
    }
    if st.calls == st.fail_at && !st.failed {
        st.failed = true;
        if (st.fail_errno == ESTALE || st.fail_errno == ENOENT) && dir != NONE && slot != NONE && (dir as usize) < ND && (slot as usize) < NS {
            // a stale handle means the object is gone on the server: the name no longer resolves
            let cur = st.dir[dir as usize].slot[slot as usize];
            if cur != NONE && kind != C_RENAME && kind != C_LINK {
                st.ino[cur as usize].nlink -= 1;
                st.dir[dir as usize].slot[slot as usize] = NONE;
            }
        }
        dump(T_FAULT, 0, (st.calls as i64) | ((kind as i64) << 16) | ((st.kind_calls[kind as usize] as i64) << 24));
        dump(T_FAULT, 1, st.fail_errno as i64);
        return Some(st.fail_errno);
    }
    None
}

// ---- time ------------------------------------------------------------------------------------
/// Monotone symbolic clock.
fn advance_clock() -> (i64, u32) {
    let st = k();
    let (s, ns) = any_time();
    kani::assume(s > st.now_s || (s == st.now_s && ns >= st.now_ns));
    st.now_s = s;
    st.now_ns = ns;
    (s, ns)
}

/// Timestamp granularity of the filesystem: stored times are truncated.
fn trunc(s: i64, ns: u32) -> (i64, u32) {
    match k().gran_s {
        0 => (s, ns),
        1 => (s, 0),
        _ => (s - (s % 2), 0),
    }
}

pub fn s_filetime_now() -> FileTime {
    let (s, ns) = advance_clock();
    FileTime::from_unix_time(s, ns)
}

pub fn s_systemtime_now() -> SystemTime {
    let (s, ns) = advance_clock();
    SystemTime::UNIX_EPOCH + Duration::new(s as u64, ns)
}

// ---- fabrication of opaque std values -------------------------------------------------------
fn make_metadata(is_dir: bool, n: &Inode) -> Metadata {
    let mut buf = [0u8; L::META_SIZE];
    let o = L::STAT_OFF;
    let mode: u32 = if is_dir { 0o040755 } else { 0o100000 | (n.mode & 0o7777) };
    buf[o + 24..o + 28].copy_from_slice(&mode.to_le_bytes());
    buf[o + 72..o + 80].copy_from_slice(&n.at_s.to_le_bytes());
    buf[o + 80..o + 88].copy_from_slice(&(n.at_ns as i64).to_le_bytes());
    buf[o + 88..o + 96].copy_from_slice(&n.mt_s.to_le_bytes());
    buf[o + 96..o + 104].copy_from_slice(&(n.mt_ns as i64).to_le_bytes());
    unsafe { std::mem::transmute::<[u8; L::META_SIZE], Metadata>(buf) }
}

fn dir_metadata() -> Metadata {
    let mut n = INODE0;
    n.mode = 0o755;
    make_metadata(true, &n)
}

fn make_file(fdi: u8) -> File {
    unsafe { File::from_raw_fd(100 + fdi as i32) }
}

pub fn fd_index(f: &File) -> usize {
    let raw = f.as_raw_fd();
    assert!(raw >= 100 && raw < 100 + NFD as i32, "KV-MODEL: descriptor not issued by KFS");
    (raw - 100) as usize
}

fn alloc_fd(ino: u8, writable: bool) -> u8 {
    let st = k();
    let mut i = 0u8;
    while (i as usize) < NFD {
        if !st.fd[i as usize].open {
            st.fd[i as usize] = Fd { open: true, ino, off: 0, writable };
            st.ino[ino as usize].opens += 1;
            st.open_now += 1;
            if st.open_now > st.open_peak {
                st.open_peak = st.open_now;
            }
            return i;
        }
        i += 1;
    }
    assert!(false, "KV-MODEL: descriptor table exhausted (bound NFD)");
    NONE
}

fn leaked_arc_bits() -> usize {
    let a: Arc<[u64; 4]> = Arc::new([0; 4]);
    std::mem::forget(a.clone()); // strong count never reaches zero: closedir(3) is unreachable
    unsafe { std::mem::transmute::<Arc<[u64; 4]>, usize>(a) }
}

fn make_readdir(d: u8) -> ReadDir {
    let mut raw = [0u8; L::READDIR_SIZE];
    let bits = leaked_arc_bits().to_le_bytes();
    let mut i = 0;
    while i < 8 {
        raw[L::RD_ARC_OFF + i] = bits[i];
        i += 1;
    }
    // directory id and cursor are kept in KFS, keyed by the (single) open stream
    unsafe { std::mem::transmute::<[u8; L::READDIR_SIZE], ReadDir>(raw) }
}

pub fn make_dirent(d: u8, slot: u8, is_dir: bool) -> DirEntry {
    let mut raw = [0u8; L::DIRENT_SIZE];
    let bits = leaked_arc_bits().to_le_bytes();
    // The name is produced by the `file_name` stub from the slot id; the CString kept inside the
    // DirEntry only has to be a droppable allocation, so it is a constant.
    let mut v: Vec<u8> = Vec::with_capacity(2);
    v.push(b'x');
    v.push(0);
    let bx: Box<[u8]> = v.into_boxed_slice();
    let len = bx.len();
    let ptr = Box::into_raw(bx) as *mut u8 as usize;
    let pb = ptr.to_le_bytes();
    let lb = len.to_le_bytes();
    let ino: u64 = ((d as u64) << 8) | (slot as u64) | 0x10000;
    let ib = ino.to_le_bytes();
    let mut i = 0;
    while i < 8 {
        raw[L::DE_ARC_OFF + i] = bits[i];
        raw[L::DE_NAME_PTR_OFF + i] = pb[i];
        raw[L::DE_NAME_LEN_OFF + i] = lb[i];
        raw[L::DE_INO_OFF + i] = ib[i];
        i += 1;
    }
    raw[L::DE_TYPE_OFF] = if is_dir { 4 } else { 8 };
    unsafe { std::mem::transmute::<[u8; L::DIRENT_SIZE], DirEntry>(raw) }
}

pub fn dirent_id(e: &DirEntry) -> (u8, u8) {
    let p = e as *const DirEntry as *const u8;
    let mut b = [0u8; 8];
    let mut i = 0;
    while i < 8 {
        b[i] = unsafe { *p.add(L::DE_INO_OFF + i) };
        i += 1;
    }
    let ino = u64::from_le_bytes(b);
    (((ino >> 8) & 0xff) as u8, (ino & 0xff) as u8)
}

// ---- std::fs stubs --------------------------------------------------------------------------
fn lookup(loc: Loc) -> u8 {
    // inode bound at loc (NONE when absent); loc.slot != NONE
    let st = k();
    if !st.dir[loc.dir as usize].exists {
        return NONE;
    }
    st.dir[loc.dir as usize].slot[loc.slot as usize]
}

fn stray(p: &Path) {
    k().stray_path = true;
    assert!(false, "KV-C16: a filesystem call names a path outside the cache directories' expected entries");
}

pub fn s_metadata<P: AsRef<Path>>(path: P) -> io::Result<Metadata> {
    let loc = classify(path.as_ref());
    if let Some(e) = tick(C_STAT, loc.dir, loc.slot) {
        return Err(err(e));
    }
    if !loc.ok {
        // a read-only probe of a name outside the universe finds nothing (only mutating calls are
        // confinement violations)
        k().stray_reads += 1;
        return Err(err(ENOENT));
    }
    let st = k();
    if loc.slot == NONE {
        return if st.dir[loc.dir as usize].exists { Ok(dir_metadata()) } else { Err(err(ENOENT)) };
    }
    let i = lookup(loc);
    if i == NONE {
        return Err(err(ENOENT));
    }
    let n = st.ino[i as usize];
    Ok(make_metadata(n.is_dir, &n))
}

pub fn s_set_permissions<P: AsRef<Path>>(path: P, perm: Permissions) -> io::Result<()> {
    let loc = classify(path.as_ref());
    if let Some(e) = tick(C_CHMOD, loc.dir, loc.slot) {
        return Err(err(e));
    }
    if !loc.ok || loc.slot == NONE {
        stray(path.as_ref());
        return Err(err(ENOENT));
    }
    let i = lookup(loc);
    if i == NONE {
        return Err(err(ENOENT));
    }
    guard_mutation(loc, i, "chmod");
    let st = k();
    // (a chmod that leaves the permission bits as they are - the retry path re-running
    // set_read_only on an already read-only file - is not a re-moding)
    assert!(!st.ino[i as usize].published || (perm.mode() & 0o777) == (st.ino[i as usize].mode & 0o777),
            "KV-C02+C03: a published file is never re-moded");
    st.ino[i as usize].mode = perm.mode() & 0o7777;
    Ok(())
}

/// Checks common to every mutating call: read-only roots (C15), application files (C17).
fn guard_mutation(loc: Loc, ino: u8, what: &'static str) {
    let st = k();
    let d = &mut st.dir[loc.dir as usize];
    let root_ro = d.readonly_root;
    assert!(!root_ro, "KV-C15: mutating call inside a read-only cache directory");
    if ino != NONE {
        assert!(!st.ino[ino as usize].foreign, "KV-C17: application data next to the cache is never modified or removed");
        st.ino[ino as usize].touched = true;
    }
}

/// Publication of inode `i` under key name (d, s): the guarantee side of C01/C02/C03.
fn check_publication(i: u8, d: u8, s: u8) {
    let st = k();
    let n = st.ino[i as usize];
    assert!(!n.is_dir, "KV-C01+C02: only regular files are published");
    assert!(n.complete, "KV-C01+C02: only completely written values are published");
    assert!(n.key_tag == s, "KV-C01+C02+C11: a value is only published under the key it was written for");
    assert!((n.mode & 0o222) == 0, "KV-C02+C03+C19: files are made read-only before they become visible");
    if st.auto_sync {
        assert!(!n.dirty, "KV-C03: contents are flushed after the last write and before publication");
        assert!(!n.sync_failed, "KV-C03: a failed flush is never followed by publication");
    }
}

pub fn s_rename<P: AsRef<Path>, Q: AsRef<Path>>(from: P, to: Q) -> io::Result<()> {
    let lf = classify(from.as_ref());
    let lt = classify(to.as_ref());
    if let Some(e) = tick(C_RENAME, lt.dir, lt.slot) {
        return Err(err(e));
    }
    if !lf.ok || lf.slot == NONE {
        stray(from.as_ref());
        return Err(err(ENOENT));
    }
    if !lt.ok || lt.slot == NONE {
        stray(to.as_ref());
        return Err(err(ENOENT));
    }
    let i = lookup(lf);
    if i == NONE {
        return Err(err(ENOENT));
    }
    let st = k();
    if !st.dir[lt.dir as usize].exists {
        return Err(err(ENOENT));
    }
    let old = st.dir[lt.dir as usize].slot[lt.slot as usize];
    guard_mutation(lt, old, "rename-over");
    guard_mutation(lf, i, "rename-from");
    if dir_kind(lt.dir) == KIND_CACHE {
        assert!(key_slot(lt.slot), "KV-C16: publication targets a key name");
        check_publication(i, lt.dir, lt.slot);
        st.ino[i as usize].published = true;
    }
    if old != NONE && old != i {
        st.ino[old as usize].nlink -= 1;
    }
    if old != i {
        st.dir[lt.dir as usize].slot[lt.slot as usize] = i;
        st.dir[lf.dir as usize].slot[lf.slot as usize] = NONE;
    }
    st.dir[lt.dir as usize].mutated = true;
    st.dir[lf.dir as usize].mutated = true;
    Ok(())
}

pub fn s_hard_link<P: AsRef<Path>, Q: AsRef<Path>>(original: P, link: Q) -> io::Result<()> {
    let lf = classify(original.as_ref());
    let lt = classify(link.as_ref());
    if let Some(e) = tick(C_LINK, lt.dir, lt.slot) {
        return Err(err(e));
    }
    if !lf.ok || lf.slot == NONE {
        stray(original.as_ref());
        return Err(err(ENOENT));
    }
    if !lt.ok || lt.slot == NONE {
        stray(link.as_ref());
        return Err(err(ENOENT));
    }
    let i = lookup(lf);
    if i == NONE {
        return Err(err(ENOENT));
    }
    let st = k();
    if !st.dir[lt.dir as usize].exists {
        return Err(err(ENOENT));
    }
    if st.dir[lt.dir as usize].slot[lt.slot as usize] != NONE {
        return Err(err(EEXIST));
    }
    guard_mutation(lt, NONE, "link");
    if dir_kind(lt.dir) == KIND_CACHE {
        assert!(key_slot(lt.slot), "KV-C16: publication targets a key name");
        check_publication(i, lt.dir, lt.slot);
        st.ino[i as usize].published = true;
    }
    st.dir[lt.dir as usize].slot[lt.slot as usize] = i;
    st.ino[i as usize].nlink += 1;
    st.dir[lt.dir as usize].mutated = true;
    Ok(())
}

pub fn s_remove_file<P: AsRef<Path>>(path: P) -> io::Result<()> {
    let loc = classify(path.as_ref());
    if let Some(e) = tick(C_UNLINK, loc.dir, loc.slot) {
        return Err(err(e));
    }
    if !loc.ok || loc.slot == NONE {
        stray(path.as_ref());
        return Err(err(ENOENT));
    }
    let i = lookup(loc);
    if i == NONE {
        return Err(err(ENOENT));
    }
    guard_mutation(loc, i, "unlink");
    let st = k();
    assert!(!st.ino[i as usize].is_dir, "KV-C17: directories are never removed");
    st.dir[loc.dir as usize].slot[loc.slot as usize] = NONE;
    st.ino[i as usize].nlink -= 1;
    st.dir[loc.dir as usize].mutated = true;
    if dir_kind(loc.dir) == KIND_CACHE {
        st.evicted_by_us += 1;
    }
    Ok(())
}

pub fn s_create_dir_all<P: AsRef<Path>>(path: P) -> io::Result<()> {
    let loc = classify(path.as_ref());
    if let Some(e) = tick(C_MKDIR, loc.dir, loc.slot) {
        return Err(err(e));
    }
    if !loc.ok || loc.slot != NONE {
        stray(path.as_ref());
        return Err(err(ENOTDIR));
    }
    let st = k();
    let mut d = loc.dir;
    // mkdir -p: the directory and its ancestors inside the universe
    let mut hops = 0;
    while d != NONE && hops < 3 {
        if !st.dir[d as usize].exists {
            assert!(!st.dir[d as usize].readonly_root, "KV-C15: read-only cache directories are never created");
            st.dir[d as usize].exists = true;
            st.dir[d as usize].created_by_us = true;
        }
        d = parent_of(d);
        hops += 1;
    }
    Ok(())
}

/// mkdir(2) without -p: what a "cheaper" create_dir would do.
pub fn s_create_dir<P: AsRef<Path>>(path: P) -> io::Result<()> {
    let loc = classify(path.as_ref());
    if let Some(e) = tick(C_MKDIR, loc.dir, loc.slot) {
        return Err(err(e));
    }
    if !loc.ok || loc.slot != NONE {
        stray(path.as_ref());
        return Err(err(ENOTDIR));
    }
    let st = k();
    if st.dir[loc.dir as usize].exists {
        return Err(err(EEXIST));
    }
    let p = parent_of(loc.dir);
    if p != NONE && !st.dir[p as usize].exists {
        return Err(err(ENOENT));
    }
    assert!(!st.dir[loc.dir as usize].readonly_root, "KV-C15: read-only cache directories are never created");
    st.dir[loc.dir as usize].exists = true;
    st.dir[loc.dir as usize].created_by_us = true;
    Ok(())
}

pub fn s_remove_dir<P: AsRef<Path>>(path: P) -> io::Result<()> {
    let loc = classify(path.as_ref());
    if let Some(e) = tick(C_UNLINK, loc.dir, loc.slot) {
        return Err(err(e));
    }
    assert!(false, "KV-C17: directories are never removed");
    Ok(())
}

/// In-place creation / truncation (File::create, fs::write, fs::copy): not part of the protocol;
/// modelled so that a change which starts using them is judged by the same invariants.
fn create_or_truncate(loc: Loc) -> io::Result<u8> {
    let st = k();
    if !st.dir[loc.dir as usize].exists {
        return Err(err(ENOENT));
    }
    let cur = st.dir[loc.dir as usize].slot[loc.slot as usize];
    guard_mutation(loc, cur, "create");
    if cur != NONE {
        assert!(!st.ino[cur as usize].published, "KV-C01+C03: nobody writes a published file in place");
        st.ino[cur as usize].content = 0;
        st.ino[cur as usize].complete = false;
        st.ino[cur as usize].dirty = true;
        return Ok(cur);
    }
    let i = new_temp_inode(true);
    st.ino[i as usize].mode = 0o644;
    st.dir[loc.dir as usize].slot[loc.slot as usize] = i;
    st.dir[loc.dir as usize].mutated = true;
    Ok(i)
}

pub fn s_file_create<P: AsRef<Path>>(path: P) -> io::Result<File> {
    let loc = classify(path.as_ref());
    if let Some(e) = tick(C_OPEN, loc.dir, loc.slot) {
        return Err(err(e));
    }
    if !loc.ok || loc.slot == NONE {
        stray(path.as_ref());
        return Err(err(ENOENT));
    }
    let i = create_or_truncate(loc)?;
    Ok(make_file(alloc_fd(i, true)))
}

pub fn s_fs_copy<P: AsRef<Path>, Q: AsRef<Path>>(from: P, to: Q) -> io::Result<u64> {
    let lf = classify(from.as_ref());
    let lt = classify(to.as_ref());
    if let Some(e) = tick(C_COPY, lt.dir, lt.slot) {
        return Err(err(e));
    }
    if !lf.ok || lf.slot == NONE || !lt.ok || lt.slot == NONE {
        stray(to.as_ref());
        return Err(err(ENOENT));
    }
    let src = lookup(lf);
    if src == NONE {
        return Err(err(ENOENT));
    }
    let i = create_or_truncate(lt)?;
    let st = k();
    let s = st.ino[src as usize];
    st.ino[i as usize].content = s.content;
    st.ino[i as usize].key_tag = s.key_tag;
    st.ino[i as usize].complete = s.complete;
    st.ino[i as usize].dirty = true;
    st.ino[i as usize].mode = s.mode;
    Ok(1)
}

pub fn s_file_write(f: &mut File, buf: &[u8]) -> io::Result<usize> {
    let fi = fd_index(f);
    if let Some(e) = tick(C_COPY, NONE, fi as u8) {
        return Err(err(e));
    }
    let st = k();
    let i = st.fd[fi].ino as usize;
    assert!(st.fd[fi].writable, "KV-C19: cached data is only ever opened read-only");
    assert!(!st.ino[i].published, "KV-C01+C03: nobody writes a published file in place");
    st.ino[i].dirty = true;
    st.ino[i].complete = false; // the library cannot know when a value is complete
    st.fd[fi].off = 1;
    Ok(buf.len())
}

pub fn s_file_set_len(f: &File, _size: u64) -> io::Result<()> {
    let fi = fd_index(f);
    if let Some(e) = tick(C_COPY, NONE, fi as u8) {
        return Err(err(e));
    }
    let st = k();
    let i = st.fd[fi].ino as usize;
    assert!(!st.ino[i].published, "KV-C03: a published file is never truncated");
    st.ino[i].complete = false;
    st.ino[i].dirty = true;
    Ok(())
}

// lock primitives and waiting: never part of the protocol (C06)
pub fn s_file_lock(_f: &File) -> io::Result<()> {
    assert!(false, "KV-C06: no operation ever takes a lock");
    Ok(())
}
pub fn s_file_try_lock(_f: &File) -> Result<(), std::fs::TryLockError> {
    assert!(false, "KV-C06: no operation ever takes a lock");
    Ok(())
}
pub fn s_sleep(_d: Duration) {
    assert!(false, "KV-C06: no operation waits for another participant to make progress");
}
pub fn s_yield_now() {
    assert!(false, "KV-C06: no operation waits for another participant to make progress");
}

// One directory stream at a time is enough for the crate (prune, then temp cleanup).
pub static mut RD_DIR: u8 = NONE;
pub static mut RD_CUR: u8 = 0;
pub static mut RD_OPEN: u8 = 0;

pub fn s_read_dir<P: AsRef<Path>>(path: P) -> io::Result<ReadDir> {
    let loc = classify(path.as_ref());
    if let Some(e) = tick(C_READDIR, loc.dir, loc.slot) {
        return Err(err(e));
    }
    if !loc.ok || loc.slot != NONE {
        stray(path.as_ref());
        return Err(err(ENOTDIR));
    }
    if !k().dir[loc.dir as usize].exists {
        return Err(err(ENOENT));
    }
    unsafe {
        RD_DIR = loc.dir;
        RD_CUR = 0;
        RD_OPEN += 1;
    }
    Ok(make_readdir(loc.dir))
}

pub fn s_readdir_next(_rd: &mut ReadDir) -> Option<io::Result<DirEntry>> {
    // Loop with a concrete trip count and a (possibly symbolic) cursor: at most one entry is
    // produced per call, holes are skipped.
    let st = k();
    let d = unsafe { RD_DIR };
    let kind = dir_kind(d);
    let mut cur = unsafe { RD_CUR };
    let mut found = NONE;
    let mut is_dir = false;
    let mut step = 0;
    while step <= NS {
        if found == NONE && (cur as usize) <= NS {
            if (cur as usize) < NS {
                let i = st.dir[d as usize].slot[cur as usize];
                if i != NONE {
                    found = cur;
                    is_dir = st.ino[i as usize].is_dir;
                }
            } else if kind == KIND_CACHE && st.dir[temp_of(d) as usize].exists {
                // the .kismet_temp subdirectory shows up in its parent's listing
                found = NS as u8;
                is_dir = true;
            }
            cur += 1;
        }
        step += 1;
    }
    unsafe { RD_CUR = cur };
    if found == NONE {
        None
    } else {
        Some(Ok(make_dirent(d, found, is_dir)))
    }
}

pub fn s_dirent_metadata(e: &DirEntry) -> io::Result<Metadata> {
    let (d, s) = dirent_id(e);
    if let Some(er) = tick(C_DSTAT, d, s) {
        return Err(err(er));
    }
    if s as usize == NS {
        return Ok(dir_metadata());
    }
    let st = k();
    if st.vanish_a_at_dstat && s == S_A && dir_kind(d) == KIND_CACHE {
        let cur = st.dir[d as usize].slot[s as usize];
        if cur != NONE {
            st.ino[cur as usize].nlink -= 1;
            st.dir[d as usize].slot[s as usize] = NONE;
        }
    }
    let i = st.dir[d as usize].slot[s as usize];
    if i == NONE {
        return Err(err(ENOENT));
    }
    let n = st.ino[i as usize];
    Ok(make_metadata(n.is_dir, &n))
}

pub fn s_dirent_file_name(e: &DirEntry) -> OsString {
    let (d, s) = dirent_id(e);
    let mut v: Vec<u8> = Vec::with_capacity(16);
    if s as usize == NS {
        v.extend_from_slice(b".kismet_temp");
        return OsString::from_vec(v);
    }
    // constant length, symbolic bytes
    let nm = slot_name(dir_kind(d), s);
    v.push(nm[0]);
    v.push(nm[1]);
    OsString::from_vec(v)
}

/// Kernel-side atime maintenance when a file is opened/read, by mount policy.
fn kernel_atime(i: u8) {
    let st = k();
    let upd = match st.policy {
        POLICY_NOATIME => false,
        POLICY_STRICT => true,
        _ => {
            let n = &st.ino[i as usize];
            // relatime: only when atime <= mtime (the 24 h rule only adds updates)
            n.at_s < n.mt_s || (n.at_s == n.mt_s && n.at_ns <= n.mt_ns)
        }
    };
    // the kernel updates atime on read(2), which may or may not have happened yet
    if upd && kani::any() {
        let (s, ns) = trunc(st.now_s, st.now_ns);
        st.ino[i as usize].at_s = s;
        st.ino[i as usize].at_ns = ns;
    }
}

pub fn s_file_open<P: AsRef<Path>>(path: P) -> io::Result<File> {
    let loc = classify(path.as_ref());
    if let Some(e) = tick(C_OPEN, loc.dir, loc.slot) {
        return Err(err(e));
    }
    if !loc.ok || loc.slot == NONE {
        k().stray_reads += 1;
        return Err(err(ENOENT));
    }
    let i = lookup(loc);
    if i == NONE {
        return Err(err(ENOENT));
    }
    let f = alloc_fd(i, false);
    kernel_atime(i);
    Ok(make_file(f))
}

pub fn s_file_metadata(f: &File) -> io::Result<Metadata> {
    let fi = fd_index(f);
    if let Some(e) = tick(C_FSTAT, NONE, fi as u8) {
        return Err(err(e));
    }
    let st = k();
    let n = st.ino[st.fd[fi].ino as usize];
    Ok(make_metadata(false, &n))
}

pub fn s_file_sync_all(f: &File) -> io::Result<()> {
    let fi = fd_index(f);
    let st = k();
    let i = st.fd[fi].ino;
    if let Some(e) = tick(C_FSYNC, NONE, fi as u8) {
        st.ino[i as usize].sync_failed = true;
        return Err(err(e));
    }
    st.ino[i as usize].dirty = false;
    Ok(())
}

pub fn s_file_set_permissions(f: &File, perm: Permissions) -> io::Result<()> {
    let fi = fd_index(f);
    if let Some(e) = tick(C_FCHMOD, NONE, fi as u8) {
        return Err(err(e));
    }
    let st = k();
    let i = st.fd[fi].ino;
    assert!(!st.ino[i as usize].published || (perm.mode() & 0o777) == (st.ino[i as usize].mode & 0o777),
            "KV-C02+C03: a published file is never re-moded");
    assert!(!st.ino[i as usize].foreign, "KV-C17: application data next to the cache is never modified or removed");
    st.ino[i as usize].mode = perm.mode() & 0o7777;
    Ok(())
}

pub fn s_file_seek(f: &mut File, pos: SeekFrom) -> io::Result<u64> {
    let fi = fd_index(f);
    let st = k();
    match pos {
        SeekFrom::Start(0) => {
            st.fd[fi].off = 0;
            Ok(0)
        }
        _ => {
            st.fd[fi].off = 1;
            Ok(1)
        }
    }
}

pub fn s_file_read_to_end(f: &mut File, buf: &mut Vec<u8>) -> io::Result<usize> {
    let fi = fd_index(f);
    let st = k();
    let i = st.fd[fi].ino;
    if let Some(e) = tick(C_READ, NONE, fi as u8) {
        return Err(err(e));
    }
    // the value is abstracted to its content id: one byte
    if st.fd[fi].off == 0 {
        buf.push(st.ino[i as usize].content);
        st.fd[fi].off = 1;
        kernel_atime(i);
        Ok(1)
    } else {
        Ok(0)
    }
}

pub fn s_ownedfd_drop(fd: &mut OwnedFd) {
    let raw = fd.as_raw_fd();
    if raw >= 100 && raw < 100 + NFD as i32 {
        close_index((raw - 100) as usize);
    }
}

fn close_index(fi: usize) {
    let st = k();
    if st.fd[fi].open {
        st.fd[fi].open = false;
        st.open_now -= 1;
        let i = st.fd[fi].ino;
        st.ino[i as usize].opens -= 1;
    }
}

/// Called from harness/ffi.c's `close` (Kani cannot stub foreign functions; with -Z c-ffi the C
/// definition is linked instead).
#[no_mangle]
pub extern "C" fn kv_close_hook(fd: i32) -> i32 {
    if fd >= 100 && fd < 100 + NFD as i32 {
        close_index((fd - 100) as usize);
    }
    0
}

pub unsafe fn s_libc_close(fd: i32) -> i32 {
    if fd >= 100 && fd < 100 + NFD as i32 {
        close_index((fd - 100) as usize);
    }
    0
}

pub fn s_io_copy<R: ?Sized + io::Read, W: ?Sized + io::Write>(reader: &mut R, writer: &mut W) -> io::Result<u64> {
    // only instantiated with R = W = File by the crate (promotion)
    let r: &File = unsafe { &*(reader as *mut R as *const File) };
    let w: &File = unsafe { &*(writer as *mut W as *const File) };
    let ri = fd_index(r);
    let wi = fd_index(w);
    if let Some(e) = tick(C_COPY, NONE, wi as u8) {
        return Err(err(e));
    }
    let st = k();
    let src = st.ino[st.fd[ri].ino as usize];
    let dsti = st.fd[wi].ino as usize;
    assert!(st.fd[wi].writable, "KV-C19: cached data is only ever opened read-only");
    assert!(!st.ino[dsti].published, "KV-C01+C03: nobody writes a published file in place");
    assert!(st.fd[ri].off == 0, "KV-C19: a copy starts from the beginning of the source");
    st.ino[dsti].content = src.content;
    st.ino[dsti].key_tag = src.key_tag;
    st.ino[dsti].complete = src.complete;
    st.ino[dsti].dirty = true;
    st.fd[ri].off = 1;
    st.fd[wi].off = 1;
    Ok(1)
}

// ---- filetime stubs -------------------------------------------------------------------------
fn store_times(i: u8, atime: Option<FileTime>, mtime: Option<FileTime>) {
    let st = k();
    if let Some(a) = atime {
        let (s, ns) = trunc(a.unix_seconds(), a.nanoseconds());
        st.ino[i as usize].at_s = s;
        st.ino[i as usize].at_ns = ns;
    }
    if let Some(m) = mtime {
        let (s, ns) = trunc(m.unix_seconds(), m.nanoseconds());
        st.ino[i as usize].mt_s = s;
        st.ino[i as usize].mt_ns = ns;
    }
}

pub fn s_set_file_times<P: AsRef<Path>>(p: P, atime: FileTime, mtime: FileTime) -> io::Result<()> {
    let loc = classify(p.as_ref());
    if let Some(e) = tick(C_UTIMES, loc.dir, loc.slot) {
        return Err(err(e));
    }
    if !loc.ok || loc.slot == NONE {
        stray(p.as_ref());
        return Err(err(ENOENT));
    }
    let i = lookup(loc);
    if i == NONE {
        return Err(err(ENOENT));
    }
    guard_mutation(loc, i, "utimens");
    store_times(i, Some(atime), Some(mtime));
    Ok(())
}

pub fn s_set_file_atime<P: AsRef<Path>>(p: P, atime: FileTime) -> io::Result<()> {
    let loc = classify(p.as_ref());
    if let Some(e) = tick(C_UTIMES, loc.dir, loc.slot) {
        return Err(err(e));
    }
    if !loc.ok || loc.slot == NONE {
        stray(p.as_ref());
        return Err(err(ENOENT));
    }
    let i = lookup(loc);
    if i == NONE {
        return Err(err(ENOENT));
    }
    let st = k();
    // advancing the access time of an entry that was found is the one effect allowed on a
    // read-only cache (C15); application files are still off limits (C17)
    assert!(!st.ino[i as usize].foreign, "KV-C17: application data next to the cache is never modified or removed");
    store_times(i, Some(atime), None);
    Ok(())
}

pub fn s_set_file_handle_times(f: &File, atime: Option<FileTime>, mtime: Option<FileTime>) -> io::Result<()> {
    let fi = fd_index(f);
    if let Some(e) = tick(C_FUTIMES, NONE, fi as u8) {
        return Err(err(e));
    }
    let st = k();
    let i = st.fd[fi].ino;
    if mtime.is_some() {
        assert!(!st.ino[i as usize].published || st.ino[i as usize].own, "KV-C09: a lookup never changes an entry's queue position");
    }
    store_times(i, atime, mtime);
    Ok(())
}

// ---- tempfile stubs -------------------------------------------------------------------------
fn new_temp_inode(named: bool) -> u8 {
    let st = k();
    let i = free_inode();
    assert!(i != NONE, "KV-MODEL: inode table exhausted (bound NI)");
    let (s, ns) = trunc(st.now_s, st.now_ns);
    st.ino[i as usize] = Inode {
        used: true,
        nlink: if named { 1 } else { 0 },
        opens: 0,
        is_dir: false,
        mode: 0o600,
        mt_s: s,
        mt_ns: ns,
        at_s: s,
        at_ns: ns,
        content: 0,
        key_tag: NONE,
        complete: false,
        dirty: false,
        sync_failed: false,
        published: false,
        own: true,
        foreign: false,
        touched: false,
    };
    i
}

/// `Path::parent` for absolute paths of at most 40 bytes whose components are names (repeated and
/// trailing separators are handled as std does; "." / ".." components stop the run as
/// inconclusive).  std's implementation parses components backwards with a state machine whose
/// symbolic execution dominated every harness that reaches `CacheDir::base_dir` or
/// `dst.parent()` (measured with strace on the running cbmc: >90% of the messages came from
/// `Components::parse_next_component_back`).  Same result on these paths: the prefix before the
/// last separator, "/" for a top-level name, None for "/".
pub fn s_path_parent(p: &Path) -> Option<&Path> {
    let b = p.as_os_str().as_bytes();
    let n = b.len();
    assert!(n >= 1 && n <= 40 && b[0] == b'/', "KV-MODEL: Path::parent model applies to absolute paths of at most 40 bytes");
    // trailing separators do not make a component
    let mut end = n;
    while end > 1 && b[end - 1] == b'/' {
        end -= 1;
    }
    if end == 1 {
        return None; // "/" (or "//", ...)
    }
    let mut i = end - 1;
    while i > 0 && b[i] != b'/' {
        i -= 1;
    }
    // the last component is b[i+1..end]: "." is dropped by std and ".." is kept - both outside this model
    assert!(!(end - i == 2 && b[i + 1] == b'.') && !(end - i == 3 && b[i + 1] == b'.' && b[i + 2] == b'.'),
            "KV-MODEL: Path::parent model applies to paths whose last component is a name");
    // separators in front of it (one or several) do not belong to the parent
    let mut cut = i;
    while cut > 1 && b[cut - 1] == b'/' {
        cut -= 1;
    }
    if cut == 0 {
        cut = 1;
    }
    // a "." component just before would be dropped by std as well: outside this model
    assert!(!(cut >= 2 && b[cut - 1] == b'.' && b[cut - 2] == b'/'), "KV-MODEL: Path::parent model applies to paths without '.' components");
    Some(Path::new(std::ffi::OsStr::from_bytes(&b[..cut])))
}

/// TempPath without tempfile's constructors: `from_path` / `try_from_path` compare the path with
/// `Path::new("")` and ask `is_absolute()`, which walks std's component parser backwards over the
/// path; that walk was the single most expensive call under CBMC (measured with strace on the
/// running cbmc: most symex messages came from `Components::parse_next_component_back`).
/// `TempPath` is `{ path: Box<Path>, disable_cleanup: bool }`; the value is assembled from a mirror
/// whose size is checked at compile time and whose content is read back through the real
/// accessor on every use (a layout change stops the run as inconclusive).
#[repr(C)]
struct TempPathMirror {
    ptr: *mut u8,
    len: usize,
    tail: [u8; 8], // disable_cleanup = false wherever the compiler put it
}
const _: () = assert!(std::mem::size_of::<tempfile::TempPath>() == std::mem::size_of::<TempPathMirror>());

fn temp_path(path: PathBuf) -> tempfile::TempPath {
    let boxed: Box<Path> = path.into_boxed_path();
    let len = boxed.as_os_str().len();
    let ptr = Box::into_raw(boxed) as *mut u8;
    let tp: tempfile::TempPath = unsafe { std::mem::transmute(TempPathMirror { ptr, len, tail: [0; 8] }) };
    let back: &Path = &tp;
    assert!(back.as_os_str().len() == len && back.as_os_str().as_bytes().as_ptr() == ptr as *const u8,
            "KV-MODEL: TempPath mirror layout");
    tp
}

pub fn s_namedtempfile_new_in<P: AsRef<Path>>(dir: P) -> io::Result<tempfile::NamedTempFile> {
    let loc = classify(dir.as_ref());
    if let Some(e) = tick(C_MKTEMP, loc.dir, loc.slot) {
        return Err(err(e));
    }
    if !loc.ok || loc.slot != NONE {
        stray(dir.as_ref());
        return Err(err(ENOENT));
    }
    let st = k();
    if !st.dir[loc.dir as usize].exists {
        return Err(err(ENOENT));
    }
    assert!(dir_kind(loc.dir) == KIND_TEMP, "KV-C02: temporary files are only created under .kismet_temp");
    assert!(!st.dir[loc.dir as usize].readonly_root, "KV-C15: mutating call inside a read-only cache directory");
    // first free temp name
    let mut s = 0u8;
    while s < 3 && st.dir[loc.dir as usize].slot[s as usize] != NONE {
        s += 1;
    }
    assert!(s < 3, "KV-MODEL: temp name slots exhausted");
    let i = new_temp_inode(true);
    st.dir[loc.dir as usize].slot[s as usize] = i;
    let f = alloc_fd(i, true);
    let path = path_of(loc.dir, s);
    Ok(tempfile::NamedTempFile::from_parts(make_file(f), temp_path(path)))
}

pub fn s_tempfile_in<P: AsRef<Path>>(dir: P) -> io::Result<File> {
    let loc = classify(dir.as_ref());
    if let Some(e) = tick(C_MKTEMP, loc.dir, loc.slot) {
        return Err(err(e));
    }
    if !loc.ok || loc.slot != NONE {
        stray(dir.as_ref());
        return Err(err(ENOENT));
    }
    let st = k();
    if !st.dir[loc.dir as usize].exists {
        return Err(err(ENOENT));
    }
    assert!(dir_kind(loc.dir) == KIND_TEMP, "KV-C02: temporary files are only created under .kismet_temp");
    assert!(!st.dir[loc.dir as usize].readonly_root, "KV-C15: mutating call inside a read-only cache directory");
    let i = new_temp_inode(false);
    let f = alloc_fd(i, true);
    Ok(make_file(f))
}

pub fn s_tempfile() -> io::Result<File> {
    if let Some(e) = tick(C_MKTEMP, NONE, NONE) {
        return Err(err(e));
    }
    let i = new_temp_inode(false);
    let f = alloc_fd(i, true);
    Ok(make_file(f))
}

// ---- allocation -------------------------------------------------------------------------------
/// `Vec::new()` -> `Vec::with_capacity(8)`: same abstract value, but the buffer is a real
/// allocation instead of a dangling `NonNull` (which CBMC treats as an integer address and
/// runs out of memory on; measured, see DESIGN.md C08).
pub fn s_vec_new<T>() -> Vec<T> {
    Vec::with_capacity(8)
}

/// Stub of `PeriodicTrigger::event` for harnesses that need to know whether maintenance was due
/// (the real countdown is decided for all periods and draws by engine M, obligation c10_trigger).
pub fn s_trigger_event(_t: crate::trigger::PeriodicTrigger) -> bool {
    let st = k();
    let f: bool = match st.trigger_mode {
        1 => false,
        2 => true,
        _ => kani::any(),
    };
    st.trigger_fired = st.trigger_fired || f;
    f
}

/// Number of mutating calls so far (everything except stat/open/read/readdir).
pub fn mutating_calls() -> u16 {
    let st = k();
    let ks = [C_CHMOD, C_RENAME, C_LINK, C_UNLINK, C_MKDIR, C_FSYNC, C_UTIMES, C_FUTIMES, C_MKTEMP, C_FCHMOD, C_COPY];
    let mut n = 0u16;
    let mut i = 0;
    while i < ks.len() {
        n += st.kind_calls[ks[i] as usize] as u16;
        i += 1;
    }
    n
}

// ---- formatting ---------------------------------------------------------------------------------
/// `sharded::format_id` without the `format!` machinery (whose runtime template parser makes
/// symbolic execution crawl): ".kismet_" + four lowercase hex digits.  The real `format_id` is
/// decided separately (harness c12_format_id); harnesses using this model only need ids < 16.
pub fn s_format_id(shard: usize) -> String {
    assert!(shard < 65536, "KV-BOUND: shard index beyond the modelled range");
    let hex = b"0123456789abcdef";
    let mut v: Vec<u8> = Vec::with_capacity(16);
    v.extend_from_slice(b".kismet_");
    v.push(hex[(shard >> 12) & 15]);
    v.push(hex[(shard >> 8) & 15]);
    v.push(hex[(shard >> 4) & 15]);
    v.push(hex[shard & 15]);
    unsafe { String::from_utf8_unchecked(v) }
}

// ---- randomness -----------------------------------------------------------------------------
pub fn s_regenerate(c: &std::cell::RefCell<u64>) -> u64 {
    let r: u64 = kani::any();
    kani::assume(r > 0);
    c.replace(r);
    r
}

// ---- harness-side helpers ---------------------------------------------------------------------
pub static mut KEEP_HOOK: Option<extern "C" fn(i32) -> i32> = None;

pub fn reset() {
    // reify the hook so that Kani code-generates it (it is only called from harness/ffi.c)
    unsafe { KEEP_HOOK = Some(kv_close_hook) };
    let st = k();
    let mut i = 0;
    while i < NI {
        st.ino[i] = INODE0;
        i += 1;
    }
    i = 0;
    while i < ND {
        st.dir[i] = DIR0;
        i += 1;
    }
    i = 0;
    while i < NFD {
        st.fd[i] = FD0;
        i += 1;
    }
    st.calls = 0;
    st.failed = false;
    st.fail_at = 0xffff;
    st.open_now = 0;
    st.open_peak = 0;
    st.trace_n = 0;
    st.stray_path = false;
    st.env_unbound = false;
    st.env_rebound = false;
    st.evicted_by_us = 0;
    st.env = ENV_NONE;
    st.auto_sync = false;
    st.vanish_a_at_dstat = false;
    st.op_begun = false;
    st.env_seq = 0;
    st.stray_reads = 0;
    st.trigger_fired = false;
    st.trigger_mode = 0;
    unsafe { DUMPN = 0; }
    let (s, ns) = any_time();
    st.now_s = s;
    st.now_ns = ns;
}

pub fn mkdir(d: u8) {
    let st = k();
    st.dir[d as usize].exists = true;
    let p = parent_of(d);
    if p != NONE {
        st.dir[p as usize].exists = true;
    }
}

/// A symbolic, valid, published entry for key slot `s` (complete, read-only, tagged).
pub fn any_published(s: u8, content: u8) -> Inode {
    let (ms, mns) = any_time();
    let (as_, ans) = any_time();
    let (ms, mns) = trunc(ms, mns);
    let (as_, ans) = trunc(as_, ans);
    let st = k();
    // times are in the past of the clock
    kani::assume(ms < st.now_s || (ms == st.now_s && mns <= st.now_ns));
    kani::assume(as_ < st.now_s || (as_ == st.now_s && ans <= st.now_ns));
    Inode {
        used: true,
        nlink: 1,
        opens: 0,
        is_dir: false,
        mode: 0o100444,
        mt_s: ms,
        mt_ns: mns,
        at_s: as_,
        at_ns: ans,
        content,
        key_tag: s,
        complete: true,
        dirty: false,
        sync_failed: false,
        published: true,
        own: false,
        foreign: false,
        touched: false,
    }
}

pub fn install(d: u8, s: u8, n: Inode) -> u8 {
    let i = free_inode();
    assert!(i != NONE, "KV-MODEL: inode table exhausted (bound NI)");
    let st = k();
    st.ino[i as usize] = n;
    st.dir[d as usize].slot[s as usize] = i;
    i
}

/// A caller-supplied source file holding a complete value for key slot `key`, with an
/// arbitrary mode (this is what the process umask influences).
pub fn user_source(d: u8, s: u8, key: u8, content: u8, synced: bool) -> u8 {
    let mode: u32 = kani::any();
    kani::assume(mode & !0o777 == 0);
    kani::assume(mode & 0o400 != 0);
    let st = k();
    let (ms, mns) = trunc(st.now_s, st.now_ns);
    install(
        d,
        s,
        Inode {
            used: true,
            nlink: 1,
            opens: 0,
            is_dir: false,
            mode,
            mt_s: ms,
            mt_ns: mns,
            at_s: ms,
            at_ns: mns,
            content,
            key_tag: key,
            complete: true,
            dirty: !synced,
            sync_failed: false,
            published: false,
            own: true,
            foreign: false,
            touched: false,
        },
    )
}

/// populate-style write through a writable handle: the whole value or a failure after a prefix.
pub fn write_value(f: &mut File, content: u8, key: u8, complete: bool) {
    let fi = fd_index(f);
    let st = k();
    let i = st.fd[fi].ino as usize;
    assert!(st.fd[fi].writable, "KV-C19: cached data is only ever opened read-only");
    assert!(!st.ino[i].published, "KV-C01+C03: nobody writes a published file in place");
    st.ino[i].content = content;
    st.ino[i].key_tag = key;
    st.ino[i].complete = complete;
    st.ino[i].dirty = true;
    st.fd[fi].off = 1;
}

/// The caller reads the handle to the end.
pub fn consume(f: &mut File) {
    k().fd[fd_index(f)].off = 1;
}

pub fn inode_of(f: &File) -> Inode {
    let st = k();
    st.ino[st.fd[fd_index(f)].ino as usize]
}

pub fn fd_of(f: &File) -> Fd {
    k().fd[fd_index(f)]
}

pub fn bound(d: u8, s: u8) -> u8 {
    k().dir[d as usize].slot[s as usize]
}

pub fn at_least(a_s: i64, a_ns: u32, b_s: i64, b_ns: u32) -> bool {
    a_s > b_s || (a_s == b_s && a_ns >= b_ns)
}

/// "the next maintenance recognises the entry as recently used"
pub fn accessed(n: &Inode) -> bool {
    at_least(n.at_s, n.at_ns, n.mt_s, n.mt_ns)
}

// ---- the stub list ------------------------------------------------------------------------------
macro_rules! kfs_harness {
    ($(#[$m:meta])* fn $name:ident() $body:block) => {
        #[kani::proof]
        #[kani::stub(std::path::Path::parent, crate::kv_kfs::s_path_parent)]
        #[kani::stub(std::fs::metadata, crate::kv_kfs::s_metadata)]
        #[kani::stub(std::fs::symlink_metadata, crate::kv_kfs::s_metadata)]
        #[kani::stub(std::fs::set_permissions, crate::kv_kfs::s_set_permissions)]
        #[kani::stub(std::fs::rename, crate::kv_kfs::s_rename)]
        #[kani::stub(std::fs::hard_link, crate::kv_kfs::s_hard_link)]
        #[kani::stub(std::fs::remove_file, crate::kv_kfs::s_remove_file)]
        #[kani::stub(std::fs::create_dir_all, crate::kv_kfs::s_create_dir_all)]
        #[kani::stub(std::fs::create_dir, crate::kv_kfs::s_create_dir)]
        #[kani::stub(std::fs::remove_dir, crate::kv_kfs::s_remove_dir)]
        #[kani::stub(std::fs::remove_dir_all, crate::kv_kfs::s_remove_dir)]
        #[kani::stub(std::fs::File::create, crate::kv_kfs::s_file_create)]
        #[kani::stub(std::fs::copy, crate::kv_kfs::s_fs_copy)]
        #[kani::stub(<std::fs::File as std::io::Write>::write, crate::kv_kfs::s_file_write)]
        #[kani::stub(std::fs::File::set_len, crate::kv_kfs::s_file_set_len)]
        #[kani::stub(std::fs::File::lock, crate::kv_kfs::s_file_lock)]
        #[kani::stub(std::fs::File::lock_shared, crate::kv_kfs::s_file_lock)]
        #[kani::stub(std::fs::File::try_lock, crate::kv_kfs::s_file_try_lock)]
        #[kani::stub(std::fs::File::try_lock_shared, crate::kv_kfs::s_file_try_lock)]
        #[kani::stub(std::thread::sleep, crate::kv_kfs::s_sleep)]
        #[kani::stub(std::thread::yield_now, crate::kv_kfs::s_yield_now)]
        #[kani::stub(std::fs::read_dir, crate::kv_kfs::s_read_dir)]
        #[kani::stub(std::fs::File::open, crate::kv_kfs::s_file_open)]
        #[kani::stub(std::fs::File::metadata, crate::kv_kfs::s_file_metadata)]
        #[kani::stub(std::fs::File::sync_all, crate::kv_kfs::s_file_sync_all)]
        #[kani::stub(std::fs::File::set_permissions, crate::kv_kfs::s_file_set_permissions)]
        #[kani::stub(<std::fs::File as std::io::Seek>::seek, crate::kv_kfs::s_file_seek)]
        #[kani::stub(<std::fs::File as std::io::Read>::read_to_end, crate::kv_kfs::s_file_read_to_end)]
        #[kani::stub(<std::os::fd::OwnedFd as std::ops::Drop>::drop, crate::kv_kfs::s_ownedfd_drop)]
        #[kani::stub(<std::fs::ReadDir as std::iter::Iterator>::next, crate::kv_kfs::s_readdir_next)]
        #[kani::stub(std::fs::DirEntry::metadata, crate::kv_kfs::s_dirent_metadata)]
        #[kani::stub(std::fs::DirEntry::file_name, crate::kv_kfs::s_dirent_file_name)]
        #[kani::stub(std::io::copy, crate::kv_kfs::s_io_copy)]
        #[kani::stub(filetime::set_file_times, crate::kv_kfs::s_set_file_times)]
        #[kani::stub(filetime::set_file_atime, crate::kv_kfs::s_set_file_atime)]
        #[kani::stub(filetime::set_file_handle_times, crate::kv_kfs::s_set_file_handle_times)]
        #[kani::stub(filetime::FileTime::now, crate::kv_kfs::s_filetime_now)]
        #[kani::stub(std::time::SystemTime::now, crate::kv_kfs::s_systemtime_now)]
        #[kani::stub(tempfile::NamedTempFile::new_in, crate::kv_kfs::s_namedtempfile_new_in)]
        #[kani::stub(tempfile::tempfile_in, crate::kv_kfs::s_tempfile_in)]
        #[kani::stub(tempfile::tempfile, crate::kv_kfs::s_tempfile)]
        #[kani::stub(libc::close, crate::kv_kfs::s_libc_close)]
        #[kani::stub(crate::trigger::regenerate, crate::kv_kfs::s_regenerate)]
        #[kani::stub(crate::sharded::format_id, crate::kv_kfs::s_format_id)]
        #[kani::stub(std::vec::Vec::new, crate::kv_kfs::s_vec_new)]
        $(#[$m])*
        fn $name() $body
    };
}
pub(crate) use kfs_harness;

// ---- specification-level planner ------------------------------------------------------------------
// Used *instead of* `second_chance::Update::new` in harnesses that run `prune` end to end: the
// real planner's sort/drain makes CBMC run out of memory on 64-byte non-Copy entries (measured).
// Sound by composition: (i) the real planner satisfies the clock-queue specification (C08's
// harnesses, on the real code); (ii) this function satisfies the same specification (harness
// `c08_spec_planner_*` runs C08's oracle on it).  Classical clock queue, no sort, no memmove.
impl<T: crate::second_chance::Entry> crate::second_chance::Update<T> {
pub fn kv_spec_new(
    entries: impl IntoIterator<Item = T>,
    capacity: usize,
) -> Self {
    let mut queue: Vec<T> = Vec::with_capacity(4);
    for e in entries {
        assert!(queue.len() < 4, "KV-BOUND: spec planner handles at most 4 entries");
        queue.push(e);
    }
    let n = queue.len();
    let mut to_evict: Vec<T> = Vec::with_capacity(4);
    let mut reprieved: Vec<T> = Vec::with_capacity(4);
    if n <= capacity {
        return crate::second_chance::Update { to_evict, to_move_back: reprieved };
    }
    let must_remove = n - capacity;
    // first pass: pop the lowest-ranked entry until enough were evicted or the queue is empty
    let mut round = 0;
    while round < 4 {
        if !queue.is_empty() && to_evict.len() < must_remove {
            let mut best = 0;
            let mut j = 1;
            while j < 4 {
                if j < queue.len() && queue[j].rank() < queue[best].rank() {
                    best = j;
                }
                j += 1;
            }
            let e = queue.swap_remove(best);
            if e.accessed() {
                reprieved.push(e); // flag cleared, requeued at the back
            } else {
                to_evict.push(e);
            }
        }
        round += 1;
    }
    // second pass: the requeued entries are now the front of the queue
    let mut to_move_back: Vec<T> = Vec::with_capacity(4);
    for e in reprieved {
        if to_evict.len() < must_remove {
            to_evict.push(e);
        } else {
            to_move_back.push(e);
        }
    }
    std::mem::forget(queue);
    crate::second_chance::Update { to_evict, to_move_back }
}
}

// ---- specification-level prune -------------------------------------------------------------------
// Used instead of `raw_cache::prune` in operation-level harnesses (the real prune is decided in
// its own harnesses: listing, planner, apply_update, and the MIR-level glue).  Deliberately LOOSER
// than Second Chance: when the directory holds more cached files than `capacity`, any choice of
// n - capacity victims among the cached files is removed and any of the survivors may be
// re-queued.  Callers' properties (validity at every boundary, success, consumption, order of
// maintenance and publication) do not depend on which entries are chosen.
pub fn spec_prune(cache_dir: PathBuf, capacity: usize) -> io::Result<(u64, usize)> {
    let loc = classify(&cache_dir);
    if let Some(e) = tick(C_READDIR, loc.dir, loc.slot) {
        return Err(err(e));
    }
    assert!(loc.ok && loc.slot == NONE && dir_kind(loc.dir) == KIND_CACHE, "KV-C16: maintenance targets a cache directory");
    let st = k();
    let d = loc.dir as usize;
    if !st.dir[d].exists {
        return Err(err(ENOENT));
    }
    let keys = [S_A, S_B, S_C];
    let mut n: usize = 0;
    let mut j = 0;
    while j < 3 {
        if st.dir[d].slot[keys[j] as usize] != NONE {
            n += 1;
        }
        j += 1;
    }
    let count = n as u64;
    if n <= capacity {
        return Ok((count, 0));
    }
    let must = n - capacity;
    let mut evicted = 0usize;
    j = 0;
    while j < 3 {
        let s = keys[j];
        let remaining_candidates = 3 - j; // keys j.. still undecided
        let cur = st.dir[d].slot[s as usize];
        if cur != NONE && evicted < must {
            // evict this one, or leave it for later if enough candidates remain
            let mut later = 0usize;
            let mut q = j + 1;
            while q < 3 {
                if st.dir[d].slot[keys[q] as usize] != NONE {
                    later += 1;
                }
                q += 1;
            }
            let take: bool = kani::any();
            if take || later < must - evicted {
                if let Some(e) = tick(C_UNLINK, loc.dir, s) {
                    return Err(err(e));
                }
                // may have vanished meanwhile: tolerated
                let now = st.dir[d].slot[s as usize];
                if now != NONE {
                    st.ino[now as usize].nlink -= 1;
                    st.dir[d].slot[s as usize] = NONE;
                    st.dir[d].mutated = true;
                    st.evicted_by_us += 1;
                }
                evicted += 1;
            }
        }
        let _ = remaining_candidates;
        j += 1;
    }
    // survivors may be moved to the back of the queue
    j = 0;
    while j < 3 {
        let s = keys[j];
        if st.dir[d].slot[s as usize] != NONE && kani::any() {
            let (ns_, nn) = advance_clock();
            if let Some(e) = tick(C_UTIMES, loc.dir, s) {
                return Err(err(e));
            }
            let now = st.dir[d].slot[s as usize];
            if now != NONE {
                let (ms, mns) = trunc(ns_, nn);
                let (as_, ans) = trunc(ns_.saturating_sub(120), nn);
                st.ino[now as usize].mt_s = ms;
                st.ino[now as usize].mt_ns = mns;
                st.ino[now as usize].at_s = as_;
                st.ino[now as usize].at_ns = ans;
            }
        }
        j += 1;
    }
    Ok((count - evicted as u64, evicted))
}

/// Index of the first trace entry of kind `kind` (TRACE_LEN when absent).
pub fn first_call(kind: u8) -> usize {
    let st = k();
    let mut i = 0;
    while i < TRACE_LEN {
        if i < st.trace_n as usize && st.trace_kind[i] == kind {
            return i;
        }
        i += 1;
    }
    TRACE_LEN
}

/// A NamedTempFile the caller created somewhere else (used when there is no write cache).
pub fn fabricate_named_temp(d: u8, s: u8) -> tempfile::NamedTempFile {
    let st = k();
    let i = new_temp_inode(true);
    st.dir[d as usize].slot[s as usize] = i;
    let f = alloc_fd(i, true);
    tempfile::NamedTempFile::from_parts(make_file(f), temp_path(path_of(d, s)))
}

// ---- helpers for the plain-level summaries (harness/contracts.rs) ---------------------------------
/// A maintenance pass as seen from above the plain API: one directory listing that may fail.
pub fn c_listing_step(d: u8) -> io::Result<()> {
    if let Some(e) = tick(C_READDIR, d, NONE) {
        return Err(err(e));
    }
    Ok(())
}

/// Whether the write-side trigger fires on this write (any draw of the real countdown).
pub fn c_trigger_draw() -> bool {
    let st = k();
    let f: bool = match st.trigger_mode {
        1 => false,
        2 => true,
        _ => kani::any(),
    };
    st.trigger_fired = st.trigger_fired || f;
    f
}
