/* C definitions linked into every Kani run (-Z c-ffi --c-lib): the one libc entry point the crate
 * calls directly (stack::finalize_tempfile::close -> libc::close).  It forwards to KFS. */
extern int kv_close_hook(int fd);
int close(int fd) { return kv_close_hook(fd); }
