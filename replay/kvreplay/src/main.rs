//! kvreplay — executes ONE operation of the real kismet-cache library against the real
//! filesystem and prints what happened.  The directory tree is prepared, and inspected
//! afterwards, by the Python driver (lib/kvlib/scenario.py); system calls are observed / made
//! to fail / delayed with strace by the same driver.
use kismet_cache::{CacheBuilder, CacheHit, CacheHitAction, Key};
use std::fs::File;
use std::io::{Read, Seek, SeekFrom, Write};
use std::os::unix::io::AsRawFd;
use std::path::PathBuf;

fn describe_err(e: &std::io::Error) {
    println!("result err kind={:?} os={:?}", e.kind(), e.raw_os_error());
}

fn describe_file(tag: &str, f: &mut File) {
    let fd = f.as_raw_fd();
    let flags = unsafe { libc::fcntl(fd, libc::F_GETFL) };
    let acc = flags & libc::O_ACCMODE;
    let off = f.seek(SeekFrom::Current(0)).unwrap_or(u64::MAX);
    let mut buf = Vec::new();
    let _ = f.read_to_end(&mut buf);
    println!(
        "{} access={} offset={} content={}",
        tag,
        if acc == libc::O_RDONLY { "rdonly" } else if acc == libc::O_RDWR { "rdwr" } else { "wronly" },
        off,
        String::from_utf8_lossy(&buf).replace('\n', "\\n")
    );
}

fn marker(s: &str) {
    // a recognisable system call in the strace log: marks the start/end of the operation
    let _ = std::fs::metadata(format!("/kvreplay-marker-{}", s));
}

fn main() {
    let a: Vec<String> = std::env::args().collect();
    if a.len() < 2 {
        eprintln!("usage: kvreplay <kind> ...");
        std::process::exit(2);
    }
    let r = std::panic::catch_unwind(|| run(&a));
    if let Err(p) = r {
        let msg = p.downcast_ref::<String>().cloned().or_else(|| p.downcast_ref::<&str>().map(|s| s.to_string())).unwrap_or_default();
        println!("panic {}", msg);
    }
}

fn run(a: &[String]) {
    match a[1].as_str() {
        // plain <op> <dir> <capacity> <name> [src]
        "plain" => {
            let cache = kismet_cache::plain::Cache::new(PathBuf::from(&a[3]), a[4].parse().unwrap());
            let name = &a[5];
            marker("begin");
            match a[2].as_str() {
                "get" => match cache.get(name) {
                    Ok(Some(mut f)) => {
                        marker("end");
                        println!("result ok");
                        describe_file("handle", &mut f);
                    }
                    Ok(None) => {
                        marker("end");
                        println!("result ok");
                        println!("value none");
                    }
                    Err(e) => {
                        marker("end");
                        describe_err(&e)
                    }
                },
                "touch" => match cache.touch(name) {
                    Ok(b) => {
                        marker("end");
                        println!("result ok");
                        println!("value {}", b);
                    }
                    Err(e) => {
                        marker("end");
                        describe_err(&e)
                    }
                },
                "set" | "put" => {
                    let r = if a[2] == "set" { cache.set(name, std::path::Path::new(&a[6])) } else { cache.put(name, std::path::Path::new(&a[6])) };
                    marker("end");
                    match r {
                        Ok(()) => println!("result ok"),
                        Err(e) => describe_err(&e),
                    }
                }
                _ => panic!("bad op"),
            }
        }
        // sharded <op> <dir> <nshards> <capacity> <name> <hash> <hash2> [src]
        "sharded" => {
            let cache = kismet_cache::sharded::Cache::new(PathBuf::from(&a[3]), a[4].parse().unwrap(), a[5].parse().unwrap());
            let key = Key::new(&a[6], a[7].parse().unwrap(), a[8].parse().unwrap());
            marker("begin");
            match a[2].as_str() {
                "get" => match cache.get(key) {
                    Ok(Some(mut f)) => {
                        marker("end");
                        println!("result ok");
                        describe_file("handle", &mut f);
                    }
                    Ok(None) => {
                        marker("end");
                        println!("result ok");
                        println!("value none");
                    }
                    Err(e) => {
                        marker("end");
                        describe_err(&e)
                    }
                },
                "touch" => match cache.touch(key) {
                    Ok(b) => {
                        marker("end");
                        println!("result ok");
                        println!("value {}", b);
                    }
                    Err(e) => {
                        marker("end");
                        describe_err(&e)
                    }
                },
                "set" | "put" => {
                    let r = if a[2] == "set" { cache.set(key, std::path::Path::new(&a[9])) } else { cache.put(key, std::path::Path::new(&a[9])) };
                    marker("end");
                    match r {
                        Ok(()) => println!("result ok"),
                        Err(e) => describe_err(&e),
                    }
                }
                _ => panic!("bad op"),
            }
        }
        // raw update|touchins <from> <to> ; raw touch <path>
        "raw" => {
            marker("begin");
            let r = match a[2].as_str() {
                "update" => kismet_cache::raw_cache::insert_or_update(&a[3], &a[4]).map(|_| String::new()),
                "touchins" => kismet_cache::raw_cache::insert_or_touch(&a[3], &a[4]).map(|_| String::new()),
                "touch" => kismet_cache::raw_cache::touch(&a[3]).map(|b| b.to_string()),
                // what a lookup does after opening the entry, without reading it (reading would let a
                // relatime mount set the access time by itself)
                "opentouch" => std::fs::File::open(&a[3]).and_then(|f| kismet_cache::raw_cache::ensure_file_touched(&f)).map(|_| String::new()),
                _ => panic!("bad raw op"),
            };
            marker("end");
            match r {
                Ok(v) => {
                    println!("result ok");
                    if !v.is_empty() {
                        println!("value {}", v);
                    }
                }
                Err(e) => describe_err(&e),
            }
        }
        // prune <dir> <capacity>
        "prune" => {
            marker("begin");
            let r = kismet_cache::raw_cache::prune(PathBuf::from(&a[2]), a[3].parse().unwrap());
            marker("end");
            match r {
                Ok((est, n)) => {
                    println!("result ok");
                    println!("value estimate={} evicted={}", est, n);
                }
                Err(e) => describe_err(&e),
            }
        }
        // stack <writer: none|plain:<dir>:<cap>|sharded:<dir>:<n>:<cap>> <readers: comma list of plain:<dir>|sharded:<dir>:<n> or -> <checker none|bytes|panic> <sync 0|1>
        //       <op> <name> <hash> <hash2> [args]
        "stack" => {
            let mut b = CacheBuilder::new();
            let w: Vec<&str> = a[2].split(':').collect();
            match w[0] {
                "plain" => {
                    b.plain_writer(w[1], w[2].parse().unwrap());
                }
                "sharded" => {
                    b.sharded_writer(w[1], w[2].parse().unwrap(), w[3].parse().unwrap());
                }
                _ => {}
            }
            if a[3] != "-" {
                for r in a[3].split(',') {
                    let p: Vec<&str> = r.split(':').collect();
                    if p[0] == "plain" {
                        b.plain_reader(p[1]);
                    } else {
                        b.sharded_reader(p[1], p[2].parse().unwrap());
                    }
                }
            }
            match a[4].as_str() {
                "bytes" => {
                    b.byte_equality_checker();
                }
                "panic" => {
                    b.panicking_byte_equality_checker();
                }
                _ => {}
            }
            b.auto_sync(a[5] == "1");
            let cache = b.take().build();
            let op = a[6].as_str();
            let key = Key::new(&a[7], a[8].parse().unwrap(), a[9].parse().unwrap());
            marker("begin");
            match op {
                "get" => match cache.get(key) {
                    Ok(Some(mut f)) => {
                        marker("end");
                        println!("result ok");
                        describe_file("handle", &mut f);
                    }
                    Ok(None) => {
                        marker("end");
                        println!("result ok");
                        println!("value none");
                    }
                    Err(e) => {
                        marker("end");
                        describe_err(&e)
                    }
                },
                "touch" => match cache.touch(key) {
                    Ok(v) => {
                        marker("end");
                        println!("result ok");
                        println!("value {}", v);
                    }
                    Err(e) => {
                        marker("end");
                        describe_err(&e)
                    }
                },
                // ensure <populate: value text | !notfound | !error>
                // gou <action accept|promote|replace> <populate>
                "ensure" | "gou" => {
                    let (action, pop) = if op == "ensure" { ("promote".to_string(), a[10].clone()) } else { (a[10].clone(), a[11].clone()) };
                    let populate = |dst: &mut File, _old: Option<File>| -> std::io::Result<()> {
                        println!("populate called");
                        if pop == "!notfound" {
                            return Err(std::io::Error::new(std::io::ErrorKind::NotFound, "nope"));
                        }
                        if pop == "!error" {
                            dst.write_all(b"partial")?;
                            return Err(std::io::Error::new(std::io::ErrorKind::Other, "populate failed"));
                        }
                        // peerput:<plain dir>:<peer value>:<own value>  - another participant publishes the
                        // key (plain put) while this populate is running: a deterministic interleaving
                        if let Some(rest) = pop.strip_prefix("peerput:") {
                            let p: Vec<&str> = rest.split(':').collect();
                            let peer = kismet_cache::plain::Cache::new(PathBuf::from(p[0]), usize::MAX);
                            let mut t = tempfile::NamedTempFile::new_in(peer.temp_dir().unwrap()).unwrap();
                            t.as_file_mut().write_all(p[1].as_bytes()).unwrap();
                            peer.put(&a[7], t.path()).unwrap();
                            return dst.write_all(p[2].as_bytes());
                        }
                        dst.write_all(pop.as_bytes())
                    };
                    let judge = |hit: CacheHit| -> CacheHitAction {
                        match hit {
                            CacheHit::Primary(f) => describe_file("judge primary", f),
                            CacheHit::Secondary(f) => describe_file("judge secondary", f),
                        }
                        match action.as_str() {
                            "accept" => CacheHitAction::Accept,
                            "promote" => CacheHitAction::Promote,
                            _ => CacheHitAction::Replace,
                        }
                    };
                    let r = if op == "ensure" { cache.ensure(key, |d| populate(d, None)) } else { cache.get_or_update(key, judge, populate) };
                    marker("end");
                    match r {
                        Ok(mut f) => {
                            println!("result ok");
                            describe_file("handle", &mut f);
                        }
                        Err(e) => describe_err(&e),
                    }
                }
                "set" | "put" => {
                    let r = if op == "set" { cache.set(key, &a[10]) } else { cache.put(key, &a[10]) };
                    marker("end");
                    match r {
                        Ok(()) => println!("result ok"),
                        Err(e) => describe_err(&e),
                    }
                }
                // set_temp / put_temp <dir to create the temp file in> <value text>
                "set_temp" | "put_temp" => {
                    let mut t = tempfile::NamedTempFile::new_in(&a[10]).expect("temp file");
                    t.as_file_mut().write_all(a[11].as_bytes()).unwrap();
                    marker("begin2");
                    let r = if op == "set_temp" { cache.set_temp_file(key, t) } else { cache.put_temp_file(key, t) };
                    marker("end");
                    match r {
                        Ok(()) => println!("result ok"),
                        Err(e) => describe_err(&e),
                    }
                }
                _ => panic!("bad op"),
            }
        }
        _ => panic!("bad kind"),
    }
}
