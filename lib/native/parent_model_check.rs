// Exhaustive native comparison of the byte-level Path::parent model (harness/kfs.rs, s_path_parent) with std:
// rustc -O lib/native/parent_model_check.rs -o /tmp/pmc && /tmp/pmc   (all absolute paths over {/, ., a} up to 8 bytes)
use std::path::Path;
use std::os::unix::ffi::OsStrExt;
fn model(p: &Path) -> Option<&Path> {
    let b = p.as_os_str().as_bytes(); let n = b.len();
    let mut end = n; while end > 1 && b[end-1]==b'/' { end -= 1; }
    if end == 1 { return None; }
    let mut i = end - 1; while i > 0 && b[i] != b'/' { i -= 1; }
    if (end - i == 2 && b[i+1]==b'.') || (end - i == 3 && b[i+1]==b'.' && b[i+2]==b'.') { return Some(Path::new("SKIP")); }
    let mut cut = i; while cut > 1 && b[cut-1]==b'/' { cut -= 1; }
    if cut == 0 { cut = 1; }
    if cut >= 2 && b[cut-1]==b'.' && b[cut-2]==b'/' { return Some(Path::new("SKIP")); }
    Some(Path::new(std::ffi::OsStr::from_bytes(&b[..cut])))
}
fn main() {
    // exhaustive over strings of length <= 7 over {'/', '.', 'a'} starting with '/'
    let alpha = [b'/', b'.', b'a'];
    let mut count = 0u64; let mut skipped = 0u64;
    for len in 1..=8usize {
        let total = 3usize.pow((len-1) as u32);
        for code in 0..total {
            let mut v = vec![b'/']; let mut c = code;
            for _ in 1..len { v.push(alpha[c % 3]); c /= 3; }
            let p = Path::new(std::ffi::OsStr::from_bytes(&v));
            let m = model(p);
            if m == Some(Path::new("SKIP")) { skipped += 1; continue; }
            let r = p.parent();
            // compare as byte strings (Path == is component-wise and would hide differences)
            let mb = m.map(|x| x.as_os_str().as_bytes().to_vec()); let rb = r.map(|x| x.as_os_str().as_bytes().to_vec());
            if mb != rb { println!("MISMATCH {:?}: model {:?} real {:?}", p, m, r); }
            count += 1;
        }
    }
    println!("compared {} paths, {} outside the model", count, skipped);
}
