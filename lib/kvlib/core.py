"""Core of the solver-based checker: scratch assembly, Kani runs, result parsing.

Everything here regenerates its encoding from /repo's *current working tree*:
the crate sources are copied to a scratch directory outside /repo and /verif,
harness modules from /verif/harness are mounted as child modules (cfg(kani)),
and Kani/CBMC compile and decide the harnesses over that copy.
"""
import json
import os
import re
import shutil
import signal
import subprocess
import sys
import tempfile
import time
from concurrent.futures import ThreadPoolExecutor

VERIF = os.path.dirname(os.path.dirname(os.path.dirname(os.path.abspath(__file__))))
REPO = os.environ.get("KV_REPO", "/repo")
HARNESS_DIR = os.path.join(VERIF, "harness")
KANI_TOOLCHAIN = "nightly-2026-08-21-x86_64-unknown-linux-gnu"

ENV = dict(os.environ)
ENV["CARGO_NET_OFFLINE"] = "true"
ENV.setdefault("CARGO_TERM_COLOR", "never")


def log(*a):
    print("[kv]", *a, file=sys.stderr, flush=True)


class Scratch:
    """A throw-away copy of /repo's sources with the harness modules mounted."""

    def __init__(self, groups, keep=False, features=(), use_cache=True):
        base = os.environ.get("KV_SCRATCH_BASE") or tempfile.gettempdir()
        self.dir = tempfile.mkdtemp(prefix="kv-%d-" % os.getpid(), dir=base)
        self.keep = keep
        self.groups = list(groups)
        self.features = list(features)
        self.target = os.path.join(self.dir, "td")
        self.mounted = []
        self._assemble()
        cache = os.path.join(VERIF, ".cache", "td")
        if use_cache and os.path.isdir(cache) and os.environ.get("KV_NO_CACHE") != "1":
            # dependency artefacts built once by bin/setup (hard links; the crate itself is rebuilt)
            subprocess.run(["cp", "-al", cache, self.target], check=False)

    def _assemble(self):
        shutil.copytree(os.path.join(REPO, "src"), os.path.join(self.dir, "src"))
        for f in ("Cargo.toml", "Cargo.lock"):
            shutil.copy(os.path.join(REPO, f), os.path.join(self.dir, f))
        with open(os.path.join(self.dir, "Cargo.toml"), "a") as f:
            f.write("\n[workspace]\n")
            f.write("\n[lints.rust]\nunexpected_cfgs = { level = \"allow\" }\n")
        libs = os.path.join(self.dir, "src", "lib.rs")
        src = open(libs).read()
        # every harness source is available next to the mounted ones (include!d helpers)
        os.makedirs(os.path.join(self.dir, "kv"), exist_ok=True)
        for fn in os.listdir(HARNESS_DIR):
            if fn.endswith(".rs"):
                shutil.copy(os.path.join(HARNESS_DIR, fn), os.path.join(self.dir, "kv", fn))
        need_kfs = False
        # a harness file may require another one to be mounted as well (// kv-with: <group>)
        for g in list(self.groups):
            head = open(os.path.join(HARNESS_DIR, g + ".rs")).read(2000)
            for w in re.findall(r"//\s*kv-with:\s*(\S+)", head):
                if w not in self.groups:
                    self.groups.append(w)
        for g in self.groups:
            path = os.path.join(HARNESS_DIR, g + ".rs")
            head = open(path).read(2000)
            m = re.search(r"//\s*kv-mount:\s*(\S+)", head)
            if not m:
                raise RuntimeError("harness %s lacks a kv-mount line" % path)
            if re.search(r"//\s*kv-needs:\s*kfs", head):
                need_kfs = True
            target = os.path.join(self.dir, m.group(1))
            os.makedirs(os.path.join(self.dir, "kv"), exist_ok=True)
            local = os.path.join(self.dir, "kv", g + ".rs")
            shutil.copy(path, local)
            with open(target, "a") as f:
                f.write('\n#[cfg(kani)] #[path = "%s"] pub(crate) mod kv_%s;\n' % (local, g))
            self.mounted.append((g, m.group(1)))
        extra = ""
        if need_kfs:
            os.makedirs(os.path.join(self.dir, "kv"), exist_ok=True)
            shutil.copy(os.path.join(HARNESS_DIR, "kfs.rs"), os.path.join(self.dir, "kv", "kfs.rs"))
            extra += '\n#[cfg(kani)] #[path = "%s"] pub(crate) mod kv_kfs;\n' % os.path.join(
                self.dir, "kv", "kfs.rs")
            layout = os.path.join(self.dir, "kv_layout.rs")
            write_layout(layout)
            extra += '\n#[cfg(kani)] #[path = "%s"] pub(crate) mod kv_layout;\n' % layout
            self.write_cfg(False)
            extra += '\n#[cfg(kani)] #[path = "%s"] pub(crate) mod kv_cfg;\n' % os.path.join(self.dir, "kv_cfg.rs")
            gen = os.path.join(self.dir, "kv_gen.rs")
            write_gen(gen)
            extra += '\n#[cfg(kani)] #[path = "%s"] pub(crate) mod kv_gen;\n' % gen
        with open(libs, "w") as f:
            # inner attributes must precede everything but comments/doc comments;
            # lib.rs starts with //! docs, so put the attribute at the very top.
            f.write('#![recursion_limit = "2048"]\n#![cfg_attr(kani, feature(allocator_api))]\n' + src + extra)

    def write_cfg(self, dump):
        with open(os.path.join(self.dir, "kv_cfg.rs"), "w") as f:
            f.write("pub const DUMP: bool = %s;\n" % ("true" if dump else "false"))

    def cleanup(self):
        if not self.keep:
            shutil.rmtree(self.dir, ignore_errors=True)
        else:
            log("kept scratch", self.dir)


def write_gen(path):
    """Constants computed independently of the crate (Python hashlib)."""
    import hashlib
    out = []
    for nm, key in (("PRIMARY", b"kismet: primary shard mixer"), ("SECONDARY", b"kismet: secondary shard mixer")):
        h = hashlib.sha256(key).digest()
        out.append("pub const %s_MULT: u64 = %d;" % (nm, int.from_bytes(h[0:8], "little")))
        out.append("pub const %s_ADD: u64 = %d;" % (nm, int.from_bytes(h[8:16], "little")))
    open(path, "w").write("\n".join(out) + "\n")


LAYOUT_PROBE = r'''
use std::os::unix::fs::MetadataExt;
use std::os::unix::ffi::OsStrExt;
fn words(p: *const u8, n: usize) -> Vec<u64> {
    (0..n / 8).map(|i| unsafe { std::ptr::read_unaligned(p.add(i * 8) as *const u64) }).collect()
}
fn readable(p: u64, len: usize) -> bool {
    let maps = std::fs::read_to_string("/proc/self/maps").unwrap_or_default();
    for l in maps.lines() {
        let mut it = l.split_whitespace();
        let range = it.next().unwrap_or("");
        let perms = it.next().unwrap_or("");
        let mut ab = range.split('-');
        let a = u64::from_str_radix(ab.next().unwrap_or("0"), 16).unwrap_or(0);
        let b = u64::from_str_radix(ab.next().unwrap_or("0"), 16).unwrap_or(0);
        if perms.starts_with('r') && p >= a && p + (len as u64) <= b { return true; }
    }
    false
}
fn main() {
    // --- std::fs::Metadata: offset of libc::stat64 -------------------------------------------
    let size = std::mem::size_of::<std::fs::Metadata>();
    let mut found = None;
    for off in (0..size.saturating_sub(144) + 1).step_by(8) {
        let mut buf = vec![0u8; size];
        // x86_64 stat64: st_mode +24, st_atime +72, st_atime_nsec +80, st_mtime +88, st_mtime_nsec +96
        buf[off + 24..off + 28].copy_from_slice(&0o100444u32.to_le_bytes());
        buf[off + 72..off + 80].copy_from_slice(&1111i64.to_le_bytes());
        buf[off + 80..off + 88].copy_from_slice(&222i64.to_le_bytes());
        buf[off + 88..off + 96].copy_from_slice(&3333i64.to_le_bytes());
        buf[off + 96..off + 104].copy_from_slice(&444i64.to_le_bytes());
        let m: std::fs::Metadata = unsafe { std::ptr::read(buf.as_ptr() as *const std::fs::Metadata) };
        let ok = m.mode() == 0o100444 && m.atime() == 1111 && m.atime_nsec() == 222
            && m.mtime() == 3333 && m.mtime_nsec() == 444 && m.is_file() && !m.is_dir()
            && m.modified().ok() == Some(std::time::UNIX_EPOCH + std::time::Duration::new(3333, 444));
        std::mem::forget(m);
        if ok { found = Some(off); break; }
    }
    let off = found.expect("stat64 offset not found");
    println!("pub const META_SIZE: usize = {};", size);
    println!("pub const STAT_OFF: usize = {};", off);

    // --- std::fs::ReadDir / DirEntry: field offsets, found on a real directory ---------------
    let dir = std::env::temp_dir().join(format!("kv-layout-{}", std::process::id()));
    std::fs::create_dir_all(&dir).unwrap();
    std::fs::write(dir.join("probe_name_x"), b"x").unwrap();
    let mut rd = std::fs::read_dir(&dir).unwrap();
    let rds = std::mem::size_of::<std::fs::ReadDir>();
    let des = std::mem::size_of::<std::fs::DirEntry>();
    let e = rd.next().unwrap().unwrap();
    let rw = words(&rd as *const _ as *const u8, rds);
    let ew = words(&e as *const _ as *const u8, des);
    let ino = e.metadata().unwrap().ino();
    let name = e.file_name();
    let nb = name.as_bytes();
    // the Arc<InnerReadDir> pointer is the word shared by both values
    let mut rd_arc = None; let mut de_arc = None;
    for (i, w) in rw.iter().enumerate() { for (j, v) in ew.iter().enumerate() { if *w == *v && readable(*w, 16) { rd_arc = Some(i * 8); de_arc = Some(j * 8); } } }
    let de_ino = ew.iter().position(|w| *w == ino).expect("d_ino") * 8;
    let mut name_ptr = None; let mut name_len = None;
    for (j, v) in ew.iter().enumerate() {
        if Some(j * 8) != de_arc && readable(*v, nb.len() + 1) {
            let s = unsafe { std::slice::from_raw_parts(*v as *const u8, nb.len() + 1) };
            if &s[..nb.len()] == nb && s[nb.len()] == 0 { name_ptr = Some(j * 8); }
        }
        if *v == (nb.len() + 1) as u64 { name_len = Some(j * 8); }
    }
    // d_type: the byte equal to DT_REG (8) in the word that is none of the above
    let eb = unsafe { std::slice::from_raw_parts(&e as *const _ as *const u8, des) };
    let used: Vec<usize> = vec![de_arc.unwrap(), de_ino, name_ptr.unwrap(), name_len.unwrap()];
    let mut de_type = None;
    for k in 0..des { if !used.iter().any(|u| k >= *u && k < *u + 8) && eb[k] == 8 { de_type = Some(k); break; } }
    println!("pub const READDIR_SIZE: usize = {};", rds);
    println!("pub const DIRENT_SIZE: usize = {};", des);
    println!("pub const RD_ARC_OFF: usize = {};", rd_arc.unwrap());
    println!("pub const DE_ARC_OFF: usize = {};", de_arc.unwrap());
    println!("pub const DE_INO_OFF: usize = {};", de_ino);
    println!("pub const DE_TYPE_OFF: usize = {};", de_type.expect("d_type"));
    println!("pub const DE_NAME_PTR_OFF: usize = {};", name_ptr.unwrap());
    println!("pub const DE_NAME_LEN_OFF: usize = {};", name_len.unwrap());
    drop(e); drop(rd);
    let _ = std::fs::remove_dir_all(&dir);
}
'''

_layout_cache = None


def write_layout(path):
    """Discover std::fs::Metadata's layout natively with Kani's own rustc."""
    global _layout_cache
    if _layout_cache is None:
        d = tempfile.mkdtemp(prefix="kv-layout-")
        try:
            src = os.path.join(d, "probe.rs")
            open(src, "w").write(LAYOUT_PROBE)
            rustc = os.path.expanduser("~/.rustup/toolchains/%s/bin/rustc" % KANI_TOOLCHAIN)
            subprocess.run([rustc, "-O", "-o", os.path.join(d, "probe"), src], check=True,
                           stdout=subprocess.DEVNULL, stderr=subprocess.PIPE)
            _layout_cache = subprocess.run([os.path.join(d, "probe")], check=True,
                                           stdout=subprocess.PIPE).stdout.decode()
        finally:
            shutil.rmtree(d, ignore_errors=True)
    open(path, "w").write(_layout_cache)


CHECK_RE = re.compile(
    r"Check (\d+): ([^\n]+)\n\s*- Status: (\w+)\n\s*- Description: ([^\n]*)\n\s*- Location: ([^\n]*)")
SUMMARY_RE = re.compile(r"\*\* (\d+) of (\d+) failed(?: \((.*?)\))?")
COVER_RE = re.compile(r"\*\* (\d+) of (\d+) cover properties satisfied(?: \((.*?)\))?")


class KaniResult:
    def __init__(self, harness):
        self.harness = harness
        self.status = "error"      # success | failed | error | timeout
        self.checks = []           # (name, status, description, location)
        self.total = 0
        self.failed = []
        self.undetermined = []
        self.covers = []           # (description, status)
        self.solver_s = 0.0
        self.symex_s = 0.0
        self.wall_s = 0.0
        self.vccs = (0, 0)
        self.steps = 0
        self.log = ""
        self.note = ""
        self.stubs = []

    def parse(self, out):
        self.log = out
        self.stubs = sorted(set(x.replace(" :: ", "::").replace(" -> ", " -> ") for x in re.findall(r"- Stub: ([^\n]*)", out)))
        for m in CHECK_RE.finditer(out):
            name, status, desc, loc = m.group(2), m.group(3), m.group(4).strip().strip('"'), m.group(5)
            if ".cover." in name or status in ("SATISFIED", "UNSATISFIABLE"):
                self.covers.append((desc, status, loc))
                continue
            self.checks.append((name, status, desc, loc))
            if status == "FAILURE":
                self.failed.append((name, desc, loc))
            elif status == "UNDETERMINED":
                self.undetermined.append((name, desc, loc))
        self.total = len(self.checks)
        m = re.search(r"Runtime decision procedure: ([\d.]+)s", out)
        if m:
            self.solver_s = float(m.group(1))
        m = re.search(r"Runtime Symex: ([\d.]+)s", out)
        if m:
            self.symex_s = float(m.group(1))
        m = re.search(r"size of program expression: (\d+) steps", out)
        if m:
            self.steps = int(m.group(1))
        m = re.search(r"Generated (\d+) VCC\(s\), (\d+) remaining after simplification", out)
        if m:
            self.vccs = (int(m.group(1)), int(m.group(2)))
        if "Solver ran out" in out and "VERIFICATION:- SUCCESSFUL" not in out:
            # CBMC gave up for lack of memory (Kani's output parser may die on the truncated stream)
            self.status = "error"
            self.note = "CBMC error / out of memory"
        elif "VERIFICATION:- SUCCESSFUL" in out:
            self.status = "success"
        elif "VERIFICATION:- FAILED" in out:
            self.status = "failed"
            if "Status: ERROR" in out or "CBMC failed" in out or "out of memory" in out.lower():
                self.status = "error"
                self.note = "CBMC error / out of memory"
        else:
            self.status = "error"
            tail = out.strip().splitlines()[-15:]
            self.note = "no verdict: " + " | ".join(tail)[-600:]


def find_goto(target_dir, harness):
    """Locate the goto binary Kani generated for `harness` (for loop/function ids)."""
    best = None
    for root, _dirs, files in os.walk(os.path.join(target_dir, "kani")):
        for f in files:
            if f.endswith(".out") and not f.endswith(".symtab.out"):
                stem = f[:-4]
                if re.search(r"\d+%s$" % re.escape(harness), stem):
                    p = os.path.join(root, f)
                    if best is None or os.path.getmtime(p) > os.path.getmtime(best):
                        best = p
    return best


def list_loops(goto):
    out = subprocess.run(["goto-instrument", "--show-loops", goto], stdout=subprocess.PIPE,
                         stderr=subprocess.DEVNULL).stdout.decode(errors="replace")
    return re.findall(r"^Loop (\S+):", out, re.M)


def list_functions(goto):
    out = subprocess.run(["goto-instrument", "--list-goto-functions", goto], stdout=subprocess.PIPE,
                         stderr=subprocess.DEVNULL).stdout.decode(errors="replace")
    return [l.strip() for l in out.splitlines() if l.startswith("_R") or l.startswith("  _R")]


def demangle_hint(sym):
    return sym


def synth_unwindset(goto, rules, default_note=None):
    """rules: list of (regex over loop id, bound).  First match wins.
    Also bounds recursion of drop_glue::<io::Error> at 1 when present."""
    entries = []
    loops = list_loops(goto)
    for lid in loops:
        for rx, bound in rules:
            if re.search(rx, lid):
                entries.append("%s:%d" % (lid, bound))
                break
    funcs = subprocess.run(["goto-instrument", "--list-goto-functions", goto], stdout=subprocess.PIPE,
                           stderr=subprocess.DEVNULL).stdout.decode(errors="replace")
    for sym in set(re.findall(r"(_R\w*9drop_glueNtNtNtB\w_2io5error5ErrorE\w*)", funcs)):
        entries.append("%s:1" % sym)
    return entries, len(loops)


KANI_EXTRA = ["-Z", "c-ffi", "--c-lib", os.path.join(HARNESS_DIR, "ffi.c")] + (["-Z", "restrict-vtable"] if os.environ.get("KV_RESTRICT_VTABLE", "1") == "1" else [])


def full_name(scratch, group, harness):
    for g, mount in scratch.mounted:
        if g == group:
            mod = os.path.splitext(os.path.basename(mount))[0]
            if mod == "lib":
                return "kv_%s::%s" % (g, harness)
            return "%s::kv_%s::%s" % (mod, g, harness)
    return harness


LEAN_ARGS = ["--no-memory-safety-checks", "--no-overflow-checks", "--no-assertion-reach-checks"]


def lean_args(u):
    extra = os.environ.get("KV_KANI_ARGS", "").split()
    if getattr(u, "lean", False) or os.environ.get("KV_LEAN") == "1":
        return LEAN_ARGS + extra
    return extra


def run_kani(scratch, harness, *, group=None, timeout=900, mem_gb=14, unwind_rules=None, extra_args=(),
             default_unwind=None, playback=False, trace=False):
    """Run one harness; returns KaniResult.  Never raises on solver trouble."""
    res = KaniResult(harness)
    t0 = time.time()
    cmd = ["cargo", "kani", "-Z", "stubbing", "-Z", "unstable-options"] + KANI_EXTRA + [
           "--harness", full_name(scratch, group, harness) if group else harness, "--exact",
           "--target-dir", scratch.target]
    if scratch.features:
        cmd += ["--features", ",".join(scratch.features)]
    if default_unwind is not None:
        cmd += ["--default-unwind", str(default_unwind)]
    if playback:
        cmd += ["-Z", "concrete-playback", "--concrete-playback=print"]
    cmd += list(extra_args)
    cbmc_args = []
    if unwind_rules:
        goto = find_goto(scratch.target, harness)
        if goto:
            entries, _n = synth_unwindset(goto, unwind_rules)
            if entries:
                cbmc_args += ["--unwindset", ",".join(entries)]
    if trace:
        cbmc_args += ["--trace"]
    if cbmc_args:
        cmd += ["--cbmc-args"] + cbmc_args
    limit_kb = int(mem_gb * 1024 * 1024)
    shell = "ulimit -v %d; exec \"$@\"" % limit_kb
    try:
        p = subprocess.Popen(["bash", "-c", shell, "kv"] + cmd, cwd=scratch.dir, env=ENV,
                             stdout=subprocess.PIPE, stderr=subprocess.STDOUT,
                             start_new_session=True)
        try:
            out, _ = p.communicate(timeout=timeout)
            res.parse(out.decode(errors="replace"))
        except subprocess.TimeoutExpired:
            try:
                os.killpg(p.pid, signal.SIGKILL)
            except ProcessLookupError:
                pass
            out, _ = p.communicate()
            res.parse(out.decode(errors="replace"))
            res.status = "timeout"
            res.note = "timeout after %ds" % timeout
    except Exception as e:  # pragma: no cover
        res.status = "error"
        res.note = "driver error: %r" % (e,)
    res.wall_s = time.time() - t0
    logdir = os.environ.get("KV_LOGDIR")
    if logdir:
        os.makedirs(logdir, exist_ok=True)
        open(os.path.join(logdir, harness + ".log"), "w").write(res.log)
    return res


def build(scratch, harnesses=None):
    """One Kani code generation of the scratch crate, restricted to the harnesses that are going
    to be run (list of (group, name)); all mounted harnesses when None.  Returns (ok, log)."""
    cmd = ["cargo", "kani", "-Z", "stubbing", "-Z", "unstable-options"] + KANI_EXTRA + ["--only-codegen",
           "--target-dir", scratch.target]
    if harnesses and os.environ.get("KV_BUILD_ALL") != "1":
        for (g, n) in harnesses:
            cmd += ["--harness", full_name(scratch, g, n)]
        cmd += ["--exact"]
    if scratch.features:
        cmd += ["--features", ",".join(scratch.features)]
    p = subprocess.run(cmd, cwd=scratch.dir, env=ENV, stdout=subprocess.PIPE, stderr=subprocess.STDOUT)
    out = p.stdout.decode(errors="replace")
    return p.returncode == 0, out
