"""Replay of KFS counterexamples against the real library on the real filesystem.

Pipeline for a failed `KV-Cxx` assertion of a KFS harness:
  1. re-run the harness with scenario dumping on and CBMC's trace (`--cbmc-args --trace`);
  2. decode the solver's model into a *scenario*: directory tree before the operation (names,
     modes, times, contents), configuration, the operation and its arguments, the environment
     actions (which peer step happened before which of our calls) and the injected fault;
  3. materialise the tree in a sandbox, run the operation with the real library
     (replay/kvreplay, dev and release builds) under strace — which also injects the fault
     (`-e inject=...:error=`) and holds the process at a system call while the driver performs a
     peer's step (`-e inject=...:delay_enter=`);
  4. evaluate the native counterpart of the failed assertion (ORACLES) on what was observed.
Reproduced => VIOLATION; not reproduced or no native counterpart => inconclusive (exit 2).
"""
import json
import os
import re
import shutil
import stat
import subprocess
import tempfile
import time

from . import core
from .core import log

REPLAY_DIR = os.path.join(core.VERIF, "replays")

KIND_CACHE, KIND_TEMP, KIND_SROOT, KIND_EXT = 0, 1, 2, 3
SLOT_NAMES = {KIND_CACHE: ["ka", "kb", ".p", "sd", "kc"], KIND_TEMP: ["t0", "t1", "t2", "u0", "o0"], KIND_EXT: ["u0", "u1", "", "", ""]}
CALL_KINDS = ["stat", "chmod", "rename", "link", "unlink", "mkdir", "readdir", "open", "fstat", "fsync", "utimes", "futimes", "mktemp",
              "fchmod", "dstat", "copy", "read"]
SYSCALLS = {"stat": ["statx", "newfstatat", "stat", "lstat"], "chmod": ["chmod", "fchmodat"], "rename": ["rename", "renameat", "renameat2"],
            "link": ["link", "linkat"], "unlink": ["unlink", "unlinkat"], "mkdir": ["mkdir", "mkdirat"], "open": ["openat", "open"],
            "fsync": ["fsync", "fdatasync"], "utimes": ["utimensat", "openat"], "futimes": ["utimensat"], "fchmod": ["fchmod"], "fstat": ["statx", "fstat", "newfstatat"],
            "readdir": ["getdents64"], "dstat": ["statx", "newfstatat"], "mktemp": ["openat"], "copy": ["copy_file_range", "sendfile", "write"], "read": ["read"]}
NONE = 255


def dir_kind(d):
    if d == 20:
        return KIND_EXT
    if d < 6:
        return KIND_CACHE if d % 2 == 0 else KIND_TEMP
    if d in (6, 13):
        return KIND_SROOT
    rel = d - 14 if d > 13 else d - 7
    return KIND_CACHE if rel % 2 == 0 else KIND_TEMP


def dir_rel(d):
    if d == 20:
        return "x"
    if d < 6:
        return "wrq"[d // 2] + ("/.kismet_temp" if d % 2 else "")
    root, rel = ("p", d - 13) if d >= 13 else ("s", d - 6)
    if rel == 0:
        return root
    k = (rel - 1) // 2
    return "%s/.kismet_%04x%s" % (root, k, "/.kismet_temp" if (rel - 1) % 2 else "")


def slot_rel(d, s):
    return dir_rel(d) + "/" + SLOT_NAMES[dir_kind(d)][s]


# ---------------------------------------------------------------------------------------------
def decode_dumps(trace_text, needle):
    """Collect the dump() values from the trace section of the failing assertion."""
    from . import cbmctrace
    body = cbmctrace.section_for(trace_text, needle)
    if body is None:
        return None
    vals = []
    for m in re.finditer(r"^  \S*DUMPV\[\d+[ul]*\]=(\d+)", body, re.M):
        vals.append(int(m.group(1)))
    # any() return values carry the same numbers even when the array store was simplified away
    for m in re.finditer(r"=(\d{19,20})(?:ul)? \(", body):
        v = int(m.group(1))
        if v >> 63 == 1:
            vals.append(v)
    sc = dict(cfg={}, dirs={}, slots={}, inodes={}, op={}, calls={}, env={}, envino={}, fault={})
    for v in vals:
        tag = (v >> 56) & 0x7f
        idx = (v >> 44) & 0xfff
        val = (v & ((1 << 44) - 1)) - (1 << 43)
        if tag == 1:
            sc["cfg"][idx] = val
        elif tag == 2:
            sc["dirs"][idx] = val
        elif tag == 3:
            sc["slots"][(idx // 8, idx % 8)] = val
        elif 4 <= tag < 4 + 15:
            sc["inodes"].setdefault(idx, {})[tag - 4] = val
        elif tag == 24:
            sc["op"][idx] = val
        elif tag == 25:
            sc["calls"][idx] = (val & 0xff, (val >> 8) & 0xff, (val >> 16) & 0xff)
        elif tag == 26:
            sc["env"][idx] = dict(before_call=val & 0xffff, dir=(val >> 16) & 0xff, slot=(val >> 24) & 0xff, action=(val >> 32) & 0xff)
        elif tag == 27:
            sc["fault"][idx] = val
        elif 32 <= tag < 32 + 15:
            sc["envino"].setdefault(idx, {})[tag - 32] = val
    return sc


INO_FIELDS = ["used", "nlink", "is_dir", "mode", "mt_s", "mt_ns", "at_s", "at_ns", "content", "key_tag", "complete", "dirty", "own", "foreign", "published"]


def scenario_from_dumps(sc, harness):
    """A JSON-able description."""
    out = dict(harness=harness, config=dict(policy=sc["cfg"].get(0), gran=sc["cfg"].get(1), env=sc["cfg"].get(2), auto_sync=sc["cfg"].get(3),
                                            fail_at=sc["cfg"].get(4), fail_errno=sc["cfg"].get(5), now_s=sc["cfg"].get(6), now_ns=sc["cfg"].get(7)),
               op=dict(code=sc["op"].get(0), a0=sc["op"].get(1), a1=sc["op"].get(2), a2=sc["op"].get(3), a3=sc["op"].get(4), a4=sc["op"].get(5)),
               dirs=[], files=[], calls=[], env=[], fault=None)
    for d, v in sorted(sc["dirs"].items()):
        if v & 1:
            out["dirs"].append(dict(id=d, path=dir_rel(d), readonly_root=bool(v & 2), shared=bool(v & 4)))
    for (d, s), ino in sorted(sc["slots"].items()):
        if ino != NONE and ino in sc["inodes"] and s < 5 and SLOT_NAMES[dir_kind(d)][s]:
            f = {INO_FIELDS[k]: val for k, val in sc["inodes"][ino].items()}
            f.update(path=slot_rel(d, s), dir=d, slot=s, inode=ino)
            out["files"].append(f)
    for n, (kind, d, s) in sorted(sc["calls"].items()):
        out["calls"].append(dict(n=n, kind=CALL_KINDS[kind] if kind < len(CALL_KINDS) else str(kind), dir=d, slot=s))
    for seq, e in sorted(sc["env"].items()):
        e = dict(e)
        e["action"] = {1: "unlink", 2: "publish", 3: "restamp", 4: "mkdir"}.get(e["action"], str(e["action"]))
        e["path"] = dir_rel(e["dir"]) if e["slot"] == NONE else slot_rel(e["dir"], e["slot"])
        if seq in sc["envino"]:
            e["file"] = {INO_FIELDS[k]: val for k, val in sc["envino"][seq].items()}
        out["env"].append(e)
    if sc["fault"]:
        v = sc["fault"].get(0, 0)
        kind = (v >> 16) & 0xff
        out["fault"] = dict(call=v & 0xffff, kind=CALL_KINDS[kind] if kind < len(CALL_KINDS) else str(kind), occurrence=(v >> 24) & 0xff,
                            errno=sc["fault"].get(1))
    return out


# ---------------------------------------------------------------------------------------------
class Native:
    """Builds kvreplay against the scratch copy of the crate (once per check run) and runs it."""

    def __init__(self, scratch):
        self.scratch = scratch
        self.bins = {}

    def build(self):
        if self.bins:
            return
        src = os.path.join(core.VERIF, "replay", "kvreplay")
        dst = os.path.join(self.scratch.dir, "replay-kvreplay")
        if os.path.exists(dst):
            shutil.rmtree(dst)
        shutil.copytree(src, dst)
        toml = open(os.path.join(dst, "Cargo.toml")).read().replace('path = "../crate"', 'path = "%s"' % self.scratch.dir)
        open(os.path.join(dst, "Cargo.toml"), "w").write(toml)
        shutil.copy(os.path.join(self.scratch.dir, "Cargo.lock"), os.path.join(dst, "Cargo.lock"))
        td = os.path.join(self.scratch.dir, "td-replay")
        for profile, flag in (("debug", []), ("release", ["--release"])):
            p = subprocess.run(["cargo", "build", "--offline", "--target-dir", td] + flag, cwd=dst, env=core.ENV,
                               stdout=subprocess.PIPE, stderr=subprocess.STDOUT)
            if p.returncode != 0:
                raise RuntimeError("kvreplay build failed: " + p.stdout.decode(errors="replace")[-1500:])
            self.bins[profile] = os.path.join(td, profile, "kvreplay")

    def sandbox(self):
        return tempfile.mkdtemp(prefix="kvr-")

    def materialise(self, root, scen, override=None):
        """Create the directory tree of the scenario under root."""
        set_time_map(scen)
        for d in scen["dirs"]:
            os.makedirs(os.path.join(root, d["path"]), exist_ok=True)
        done = {}
        for f in scen["files"]:
            path = os.path.join(root, f["path"])
            os.makedirs(os.path.dirname(path), exist_ok=True)
            if f.get("is_dir"):
                os.makedirs(path, exist_ok=True)
                continue
            if f["inode"] in done:
                os.link(done[f["inode"]], path)
                continue
            write_file(path, f)
            done[f["inode"]] = path

    def run(self, args, profile="release", strace=None, timeout=120, cwd=None):
        """-> dict(out=stdout lines, rc, strace=[lines])"""
        cmd = [self.bins[profile]] + [str(a) for a in args]
        slog = None
        if strace is not None:
            slog = tempfile.mktemp(prefix="kvr-strace-")
            cmd = ["strace", "-f", "-y", "-o", slog, "-e", "trace=%file,%desc,fsync,fdatasync"] + strace + cmd
        p = subprocess.run(cmd, stdout=subprocess.PIPE, stderr=subprocess.PIPE, timeout=timeout, cwd=cwd)
        res = dict(out=p.stdout.decode(errors="replace").splitlines(), rc=p.returncode, err=p.stderr.decode(errors="replace")[-400:], strace=[])
        if slog and os.path.exists(slog):
            lines = open(slog, errors="replace").read().splitlines()
            # keep only the operation itself (between the two markers)
            keep, on = [], False
            for ln in lines:
                if "kvreplay-marker-begin" in ln:
                    on = True
                    continue
                if "kvreplay-marker-end" in ln:
                    on = False
                if on:
                    keep.append(ln)
            res["strace"] = keep
            os.remove(slog)
        return res


TIME_MAP = {}


def set_time_map(scen):
    """The solver is free to pick timestamps up to 2^40 s, which real filesystems clamp.  Replays use an
    order-preserving compression of every timestamp of the scenario into the recent past (one hour
    apart per distinct second), keeping nanoseconds; ordering is what the crate's logic depends on."""
    TIME_MAP.clear()
    secs = set()
    for f in scen.get("files", []):
        secs.update([f.get("at_s", 0), f.get("mt_s", 0)])
    for e in scen.get("env", []):
        f = e.get("file") or {}
        secs.update([f.get("at_s", 0), f.get("mt_s", 0)])
    secs.add((scen.get("config") or {}).get("now_s") or 0)
    base = int(time.time()) - 3600 * (len(secs) + 48)
    for i, v in enumerate(sorted(secs)):
        TIME_MAP[v] = base + 3600 * i


def tmap(sec):
    return TIME_MAP.get(sec, max(0, sec))


def write_file(path, f):
    with open(path, "wb") as fh:
        fh.write(b"value-%d" % f.get("content", 0))
    os.chmod(path, f.get("mode", 0o444) & 0o777)
    at = tmap(f.get("at_s", 0)) * 10**9 + f.get("at_ns", 0)
    mt = tmap(f.get("mt_s", 0)) * 10**9 + f.get("mt_ns", 0)
    os.utime(path, ns=(at, mt))


def snapshot(root):
    """{relative path: dict(kind, mode, mtime_ns, atime_ns, content, nlink)}"""
    snap = {}
    for dp, dns, fns in os.walk(root):
        for n in dns + fns:
            p = os.path.join(dp, n)
            st = os.lstat(p)
            rel = os.path.relpath(p, root)
            e = dict(kind="dir" if stat.S_ISDIR(st.st_mode) else "file", mode=st.st_mode & 0o7777, mtime_ns=st.st_mtime_ns,
                     atime_ns=st.st_atime_ns, nlink=st.st_nlink)
            if e["kind"] == "file":
                try:
                    # O_NOATIME: observing the tree must not set read marks
                    fd = os.open(p, os.O_RDONLY | os.O_NOATIME)
                    try:
                        e["content"] = os.read(fd, 200).decode(errors="replace")
                    finally:
                        os.close(fd)
                except OSError as ex:
                    e["content"] = "<%s>" % ex
            snap[rel] = e
    return snap


def parse_out(lines):
    r = dict(result=None, value=None, handle=None, panic=None, kind=None, os=None)
    for ln in lines:
        if ln.startswith("result ok"):
            r["result"] = "ok"
        elif ln.startswith("result err"):
            r["result"] = "err"
            m = re.search(r"kind=(\w+) os=(\w+)(?:\((\d+)\))?", ln)
            if m:
                r["kind"] = m.group(1)
                r["os"] = m.group(3)
        elif ln.startswith("value "):
            r["value"] = ln[6:]
        elif ln.startswith("handle "):
            r["handle"] = dict(re.findall(r"(\w+)=(\S*)", ln))
        elif ln.startswith("panic"):
            r["panic"] = ln[6:]
    return r


# ---------------------------------------------------------------------------------------------
def mixers():
    import hashlib
    out = []
    for key in (b"kismet: primary shard mixer", b"kismet: secondary shard mixer"):
        d = hashlib.sha256(key).digest()
        out.append((int.from_bytes(d[0:8], "little") | 1, int.from_bytes(d[8:16], "little")))
    return out


def shard_ids(h1, h2, n):
    (m1, a1), (m2, a2) = mixers()
    p = (n * ((h1 * m1 + a1) % (1 << 64))) >> 64
    s = (n * ((h2 * m2 + a2) % (1 << 64))) >> 64
    if s == p:
        s = s + 1 if s + 1 < n else 0
    return p, s


def hashes_for(p, s, n):
    """Key hashes whose documented mapping gives candidate shards (p, s) for n shards."""
    for h1 in range(0, 4096):
        for h2 in range(0, 64):
            if shard_ids(h1, h2, n) == (p, s):
                return h1, h2
    raise RuntimeError("no hashes found")


STACK_OPS = {0: "get", 1: "touch", 2: "ensure", 3: "gou", 4: "set", 5: "put", 6: "set_temp", 7: "put_temp"}


def op_args(scen, root, populate=None):
    """kvreplay command line for the scenario's operation (None if this opcode has no direct native counterpart)."""
    op = scen["op"]
    code = op["code"]
    cap = op["a0"] if op["a0"] is not None else 10
    w = os.path.join(root, "w")
    src = os.path.join(root, "x", "u0")
    if code in (1, 2, 3, 4):
        name = {1: "get", 2: "touch", 3: "set", 4: "put"}[code]
        return ["plain", name, w, cap, "ka"] + ([src] if code >= 3 else [])
    if code in (10, 11):
        return ["raw", "update" if code == 10 else "touchins", os.path.join(w, ".kismet_temp", "u0"), os.path.join(w, "ka")]
    if code == 12:
        return ["raw", "touch", os.path.join(w, "ka")]
    if code == 15:
        return ["prune", w, 0]
    if code in (20, 21, 22, 23):
        p, s2 = op["a0"], op["a1"]
        h1, h2 = hashes_for(p, s2, 3)
        capn = op["a2"] if op["a2"] else 3000
        name = {20: "get", 21: "touch", 22: "set", 23: "put"}[code]
        return ["sharded", name, os.path.join(root, "s"), 3, max(capn * 3, 3), "ka", h1, h2] + ([src] if code >= 22 else [])
    if code == 30:
        bits = op["a0"]
        writer, readers, sop, checker, sync = bits & 15, (bits >> 4) & 15, (bits >> 8) & 255, (bits >> 16) & 15, (bits >> 20) & 1
        maint = (scen.get("fault") or {}).get("kind") in ("readdir", "dstat") or any(c.get("kind") == "readdir" for c in scen.get("calls", []))
        wcap = 3 if maint else 100   # capacity < 6 => period 1 => maintenance on every write (the harness's RNG draw is symbolic)
        wspec = "none" if writer == 0 else ("plain:%s:%d" % (w, wcap) if writer == 1 else "sharded:%s:2:%d" % (os.path.join(root, "s"), wcap))
        rspec = "-" if readers == 0 else ",".join("plain:%s" % os.path.join(root, d) for d in ["r", "q"][:readers])
        cspec = {0: "none", 1: "bytes", 2: "panic"}[checker]
        h1, h2 = hashes_for(0, 1, 2)
        args = ["stack", wspec, rspec, cspec, sync, STACK_OPS[sop], "ka", h1, h2]
        action = {0: "accept", 1: "promote", 2: "replace"}.get(op.get("a3"), "promote")
        pop = populate or {0: "value-70", 1: "!notfound", 2: "!error"}.get(op.get("a4"), "value-70")
        if sop == 2:
            args += [pop]
        elif sop == 3:
            args += [action, pop]
        elif sop in (4, 5):
            args += [src]
        elif sop in (6, 7):
            tdir = os.path.join(w, ".kismet_temp") if writer == 1 else (os.path.join(root, "s", ".kismet_0000", ".kismet_temp") if writer == 2 else os.path.join(root, "x"))
            os.makedirs(tdir, exist_ok=True)
            args += [tdir, "value-70"]
        return args
    return None


def strace_calls(lines, names):
    """Indices and text of the strace lines whose syscall is one of names."""
    out = []
    for i, ln in enumerate(lines):
        m = re.match(r"^\d+\s+(\w+)\(", ln)
        if m and m.group(1) in names:
            out.append((i, ln))
    return out


def full_strace(nat, args, profile):
    """Whole-process strace (with markers) -> list of (syscall name, line)."""
    slog = tempfile.mktemp(prefix="kvr-strace-")
    cmd = ["strace", "-f", "-y", "-o", slog, "-e", "trace=%file,%desc,fsync,fdatasync", nat.bins[profile]] + [str(a) for a in args]
    subprocess.run(cmd, stdout=subprocess.PIPE, stderr=subprocess.PIPE, timeout=120)
    lines = open(slog, errors="replace").read().splitlines() if os.path.exists(slog) else []
    if os.path.exists(slog):
        os.remove(slog)
    out = []
    for ln in lines:
        m = re.match(r"^\d+\s+(\w+)\(", ln)
        if m:
            out.append((m.group(1), ln))
    return out


KIND_FILTER = {"readdir": (["openat"], lambda ln: "O_DIRECTORY" in ln),
               "open": (["openat", "open"], lambda ln: "O_DIRECTORY" not in ln and "O_CREAT" not in ln),
               "mktemp": (["openat"], lambda ln: "O_CREAT" in ln),
               "utimes": (["utimensat", "openat"], lambda ln: "O_DIRECTORY" not in ln and "O_CREAT" not in ln),
               "stat": (["statx", "newfstatat"], lambda ln: "EFAULT" not in ln and "AT_EMPTY_PATH" not in ln),
               "dstat": (["statx", "newfstatat"], lambda ln: "EFAULT" not in ln),
               "fstat": (["statx", "fstat", "newfstatat"], lambda ln: "AT_EMPTY_PATH" in ln or ln.split("(")[0].endswith("fstat"))}


def fault_injection(scen, nat, args, profile, setup):
    """strace arguments that make the scenario's failing call fail natively (two passes: the first
    locates the k-th call of that kind inside the operation and counts the same-named calls before it)."""
    ft = scen.get("fault")
    if not ft:
        return []
    names, flt = KIND_FILTER.get(ft["kind"], (SYSCALLS.get(ft["kind"], []), lambda ln: True))
    if not names:
        return None
    root = nat.sandbox()
    try:
        setup(root)
        calls = full_strace(nat, args(root), profile)
    finally:
        shutil.rmtree(root, ignore_errors=True)
    begin = next((i for i, (n, ln) in enumerate(calls) if "kvreplay-marker-begin" in ln), None)
    if begin is None:
        return None
    inside = [i for i in range(begin + 1, len(calls)) if calls[i][0] in names and "kvreplay-marker" not in calls[i][1] and flt(calls[i][1])]
    if len(inside) < ft["occurrence"] or ft["occurrence"] < 1:
        return None
    tidx = inside[ft["occurrence"] - 1]
    target = calls[tidx][0]
    when = sum(1 for (n, ln) in calls[:tidx + 1] if n == target)
    err = {5: "EIO", 13: "EACCES", 28: "ENOSPC", 116: "ESTALE", 20: "ENOTDIR", 24: "EMFILE", 18: "EXDEV"}.get(ft["errno"], "EIO")
    return ["-e", "inject=%s:error=%s:when=%d" % (target, err, when)]


# --- native counterparts of KV assertions -----------------------------------------------------------
def both_profiles(fn):
    out = {}
    for profile in ("debug", "release"):
        out[profile] = fn(profile)
    return out


def run_scenario(scen, nat, profile, strace=None, with_fault=False, populate=None, tweak=None):
    """Materialise the scenario, run its own operation, observe. -> dict or None"""
    def setup(root):
        nat.materialise(root, scen)
        if tweak:
            tweak(root)
    inj = []
    if with_fault and scen.get("fault"):
        inj = fault_injection(scen, nat, lambda r: op_args(scen, r, populate), profile, setup)
        if inj is None:
            return None
    root = nat.sandbox()
    try:
        setup(root)
        args = op_args(scen, root, populate)
        if args is None:
            return None
        before = snapshot(root)
        r = nat.run(args, profile=profile, strace=(strace or []) + inj if (strace is not None or inj) else None)
        after = snapshot(root)
        return dict(out=parse_out(r["out"]), raw=r["out"], before=before, after=after, strace=r["strace"], args=[str(a).replace(root, "<root>") for a in args],
                    injected=inj)
    finally:
        shutil.rmtree(root, ignore_errors=True)


def verdict(bad, scen, what, ok_detail):
    return dict(reproduced=len(bad) >= 2, detail="; ".join("%s: %s" % b for b in bad) or ok_detail,
                signature=dict(op=scen["op"]["code"], what=what))


def o_dotfile_untouched(scen, nat, msg):
    """C17: prune(dir, 0) on the scenario's directory must leave the application dot-file alone."""
    bad = []
    for profile in ("debug", "release"):
        root = nat.sandbox()
        try:
            nat.materialise(root, scen)
            b = snapshot(root)
            dots = [p for p in b if os.path.basename(p).startswith(".") and not os.path.basename(p).startswith(".kismet") and b[p]["kind"] == "file"]
            nat.run(["prune", os.path.join(root, "w"), 0], profile=profile)
            a = snapshot(root)
            for p in dots:
                if p not in a or a[p]["mtime_ns"] != b[p]["mtime_ns"] or a[p]["content"] != b[p]["content"]:
                    bad.append((profile, "%s %s by raw_cache::prune(dir, 0)" % (p, "deleted" if p not in a else "altered")))
        finally:
            shutil.rmtree(root, ignore_errors=True)
    return verdict(bad, scen, "application dot-file removed by maintenance", "dot-files untouched natively")


def o_readonly_before_visible(scen, nat, msg):
    """C01/C02/C03: at the publishing call (rename/link onto the key name) the file must already be read-only."""
    bad = []
    for profile in ("debug", "release"):
        r = run_scenario(scen, nat, profile, strace=[])
        if r is None:
            return None
        lines = r["strace"]
        pubs = [(i, ln) for (i, ln) in strace_calls(lines, ["rename", "renameat", "renameat2", "link", "linkat"]) if "/ka" in ln and "= 0" in ln]
        chmods = [(i, ln) for (i, ln) in strace_calls(lines, ["chmod", "fchmodat", "fchmod"]) if "= 0" in ln]
        srcmode = max([f["mode"] for f in scen["files"] if f.get("own")] or [0])
        if pubs and (srcmode & 0o222):
            if not any(i < pubs[0][0] for (i, _l) in chmods):
                bad.append((profile, "publishing call precedes chmod: " + pubs[0][1][:110]))
    return verdict(bad, scen, "published before being made read-only", "chmod precedes publication natively")


def o_fresh_not_accessed(scen, nat, msg):
    """C09: a freshly written entry must not look 'recently used' on a filesystem with coarse (1-2 s)
    timestamps: its atime must be clearly (>= 2 s) earlier than its mtime."""
    bad = []
    for profile in ("debug", "release"):
        r = run_scenario(scen, nat, profile)
        if r is None:
            return None
        e = r["after"].get("w/ka")
        if e and r["out"]["result"] == "ok" and e["content"] == "value-9":
            if e["mtime_ns"] - e["atime_ns"] < 2 * 10**9:
                bad.append((profile, "mtime - atime = %.3f s" % ((e["mtime_ns"] - e["atime_ns"]) / 1e9)))
    return verdict(bad, scen, "fresh entry would be marked as used on a coarse-granularity filesystem", "atime is >= 2 s before mtime natively")


def o_flush_failed_published(scen, nat, msg):
    """C03: with the flush failing, the new value must not appear under the key."""
    bad = []
    for profile in ("debug", "release"):
        sc = dict(scen)
        sc["fault"] = dict(kind="fsync", occurrence=1, errno=5)
        r = run_scenario(sc, nat, profile, strace=[], with_fault=True)
        if r is None:
            return None
        for p, e in r["after"].items():
            if os.path.basename(p) == "ka" and not p.startswith(("r/", "q/")) and e.get("content") == "value-70":
                bad.append((profile, "fsync failed (%s) yet %s holds the new value; result=%s" % (r["injected"], p, r["out"]["result"])))
    return verdict(bad, scen, "publication after a failed flush", "nothing published after the failed flush natively")


def o_temp_leak(scen, nat, msg):
    """C18: after the operation (with the scenario's injected failure) no library temp file is left behind."""
    bad = []
    for profile in ("debug", "release"):
        r = run_scenario(scen, nat, profile, strace=[], with_fault=True)
        if r is None:
            return None
        left = [p for p in r["after"] if "/.kismet_temp/" in p and p not in r["before"]]
        if left:
            bad.append((profile, "left behind %r (fault %s, result %s)" % (left, r["injected"], r["out"]["result"])))
    return verdict(bad, scen, "temporary file leaked after a failed call", "no temp file left natively")


def o_two_copies(scen, nat, msg):
    bad = []
    for profile in ("debug", "release"):
        r = run_scenario(scen, nat, profile)
        if r is None:
            return None
        copies = [p for p in r["after"] if os.path.basename(p) == "ka" and p.startswith("s/")]
        if len(copies) > 1:
            bad.append((profile, "two copies: %r" % copies))
    return verdict(bad, scen, "two copies of one key in a sharded cache", "one copy natively")


def o_checker_bypassed(scen, nat, msg):
    bad = []
    for profile in ("debug", "release"):
        r = run_scenario(scen, nat, profile)
        if r is None:
            return None
        if r["out"]["result"] == "ok" and r["out"]["panic"] is None:
            bad.append((profile, "call succeeded although copies / populated value differ: %r" % (r["raw"],)))
    return verdict(bad, scen, "consistency checker not consulted", "call failed natively as required")


def o_offset_zero(scen, nat, msg):
    bad = []
    for profile in ("debug", "release"):
        r = run_scenario(scen, nat, profile)
        if r is None:
            return None
        h = r["out"]["handle"]
        if h and (h.get("offset") != "0" or h.get("access") != "rdonly"):
            bad.append((profile, "returned handle: %r" % (h,)))
    return verdict(bad, scen, "returned handle not read-only at offset 0", "handle read-only at offset 0 natively")


def o_readonly_root_mutated(scen, nat, msg):
    """C15: no mutating call may target a read-only root; only atime may change there."""
    bad = []
    for profile in ("debug", "release"):
        r = run_scenario(scen, nat, profile, strace=[])
        if r is None:
            return None
        for p in set(r["before"]) | set(r["after"]):
            if p.startswith(("r/", "q/")) or p in ("r", "q"):
                b, a = r["before"].get(p), r["after"].get(p)
                if b is None or a is None or any(b[k] != a[k] for k in ("mode", "mtime_ns", "nlink", "kind")) or b.get("content") != a.get("content"):
                    bad.append((profile, "%s changed: %r -> %r" % (p, b, a)))
        for (_i, ln) in strace_calls(r["strace"], ["utimensat"]):
            if ("/r/" in ln or "/q/" in ln) and "UTIME_OMIT]" not in ln and "= 0" in ln:
                bad.append((profile, "mtime written inside a read-only cache: " + ln[:140]))
        for (_i, ln) in strace_calls(r["strace"], ["rename", "renameat", "renameat2", "link", "linkat", "unlink", "unlinkat", "mkdir", "mkdirat", "chmod", "fchmodat"]):
            if re.search(r"/(r|q)(/|\")", ln) and "= 0" in ln:
                bad.append((profile, "mutating call inside a read-only cache: " + ln[:140]))
    bad = bad[:4]
    return dict(reproduced=len({b[0] for b in bad}) >= 2, detail="; ".join("%s: %s" % b for b in bad) or "read-only roots untouched natively",
                signature=dict(op=scen["op"]["code"], what="read-only cache modified"))


def o_lists_directory(scen, nat, msg):
    bad = []
    for profile in ("debug", "release"):
        r = run_scenario(scen, nat, profile, strace=[])
        if r is None:
            return None
        g = strace_calls(r["strace"], ["getdents64"])
        if g:
            bad.append((profile, "directory listed during a write with no maintenance due: " + g[0][1][:120]))
    return verdict(bad, scen, "directory listing outside maintenance", "no directory listing natively")


def o_peer_put_during_populate(scen, nat, msg):
    """C04/C13: another participant publishes the key while our populate runs (deterministic interleaving)."""
    bad = []
    for profile in ("debug", "release"):
        root_holder = {}
        r = None
        root = nat.sandbox()
        try:
            nat.materialise(root, scen)
            pop = "peerput:%s:value-PEER:value-70" % os.path.join(root, "w")
            args = op_args(scen, root, populate=pop)
            if args is None:
                return None
            out = nat.run(args, profile=profile)
            po = parse_out(out["out"])
            after = snapshot(root)
            cached = after.get("w/ka", {}).get("content")
            h = po["handle"] or {}
            replace = "replace" in [str(a) for a in args]
            if replace and h.get("content") != "value-70":
                bad.append((profile, "Replace returned %r, not the newly populated value" % h.get("content")))
            if not replace and h.get("content") != cached:
                bad.append((profile, "returned %r while the cache holds %r" % (h.get("content"), cached)))
        finally:
            shutil.rmtree(root, ignore_errors=True)
    return verdict(bad, scen, "value returned under a concurrent put differs from the specified one", "returned value as specified natively")


def o_invalid_name_modifies(scen, nat, msg):
    """C16: operations on rejected names modify nothing (checked on a victim file reachable through the name)."""
    bad = []
    for profile in ("debug", "release"):
        root = nat.sandbox()
        try:
            os.makedirs(os.path.join(root, "s", ".kismet_0000"))
            os.makedirs(os.path.join(root, "s", ".kismet_0001"))
            os.makedirs(os.path.join(root, "x"))
            victim = os.path.join(root, "victim")
            write_file(victim, dict(content=1, mode=0o644, at_s=1000, mt_s=2000))
            src = os.path.join(root, "x", "u0")
            for opname in ("set", "put"):
                write_file(src, dict(content=9, mode=0o600, at_s=3000, mt_s=3000))
                b = snapshot(root)
                h1, h2 = hashes_for(0, 1, 3)
                out = parse_out(nat.run(["sharded", opname, os.path.join(root, "s"), 3, 3, victim, h1, h2, src], profile=profile)["out"])
                a = snapshot(root)
                if a["victim"]["atime_ns"] != b["victim"]["atime_ns"] or a["victim"]["mtime_ns"] != b["victim"]["mtime_ns"]:
                    bad.append((profile, "sharded %s with a rejected (absolute) name re-stamped the file it points to; result %s/%s" % (opname, out["result"], out["kind"])))
        finally:
            shutil.rmtree(root, ignore_errors=True)
    return dict(reproduced=len({b[0] for b in bad}) >= 2, detail="; ".join("%s: %s" % b for b in bad[:2]) or "nothing modified natively",
                signature=dict(op="sharded set/put", what="operation on an invalid name modified a file"))


def o_outside_universe(scen, nat, msg):
    """C16: the operation must not create or alter anything but the key's own entry (and its source / temp files)."""
    bad = []
    for profile in ("debug", "release"):
        r = run_scenario(scen, nat, profile, strace=[], with_fault=True)
        if r is None:
            return None
        for p in r["after"]:
            base = os.path.basename(p)
            if p not in r["before"] and base.startswith(".") and not base.startswith(".kismet"):
                bad.append((profile, "created %s in the dot-prefixed namespace (fault %s)" % (p, r["injected"])))
        # transient effects: any system call naming a dot-prefixed entry (outside .kismet*) of a cache directory
        for ln in r["strace"]:
            m = re.search(r'"(/[^"]*/(?:w|s/\.kismet_[0-9a-f]+)/(\.[^"/]*))"', ln)
            if m and not m.group(2).startswith(".kismet") and "kvreplay-marker" not in ln:
                bad.append((profile, "system call on %s (fault %s): %s" % (m.group(2), r["injected"], ln[:100])))
                break
    return verdict(bad, scen, "effect outside the key's own entry", "no effect outside the key's entry natively")


def o_temp_age(scen, nat, msg):
    """C17/C02: maintenance removes temp files older than one hour and leaves younger ones (ages from the scenario)."""
    bad = []
    now_s = scen["config"]["now_s"] or 0
    for profile in ("debug", "release"):
        root = nat.sandbox()
        try:
            w = os.path.join(root, "w")
            t = os.path.join(w, ".kismet_temp")
            os.makedirs(t)
            os.makedirs(os.path.join(root, "x"))
            real_now = time.time()
            ages = {}
            for f in scen["files"]:
                if f["path"].startswith("w/.kismet_temp/"):
                    age = now_s - f["mt_s"]
                    pth = os.path.join(root, f["path"])
                    open(pth, "w").write("tmp")
                    os.utime(pth, (real_now - age, real_now - age))
                    ages[f["path"]] = age
            src = os.path.join(root, "x", "u0")
            open(src, "w").write("v")
            nat.run(["plain", "put", w, 0, "kz", src], profile=profile)
            for p, age in ages.items():
                gone = not os.path.exists(os.path.join(root, p))
                if age < 3590 and gone:
                    bad.append((profile, "temp file aged %d s (younger than the limit) was removed" % age))
                if age > 3700 and not gone:
                    bad.append((profile, "temp file aged %d s (older than the limit) was kept" % age))
        finally:
            shutil.rmtree(root, ignore_errors=True)
    return dict(reproduced=len({b[0] for b in bad}) >= 2, detail="; ".join("%s: %s" % b for b in bad[:2]) or "temp files handled by age natively",
                signature=dict(op="maintenance", what="temp file removed/kept against the age rule"))


def align_calls(scen, calls, begin):
    """Map KFS call numbers to indices into the whole-process strace list (greedy, by kind)."""
    out = {}
    j = begin + 1
    for c in scen["calls"]:
        names = SYSCALLS.get(c["kind"], [])
        k = j
        while k < len(calls) and not (calls[k][0] in names and "kvreplay-marker" not in calls[k][1] and "EFAULT" not in calls[k][1]):
            k += 1
        if k >= len(calls):
            break
        out[c["n"]] = k
        j = k + 1
    return out


def apply_env_action(root, e):
    path = os.path.join(root, e["path"])
    if e["action"] == "unlink":
        try:
            os.unlink(path)
        except OSError:
            pass
    elif e["action"] == "mkdir":
        os.makedirs(path, exist_ok=True)
    elif e["action"] == "publish":
        os.makedirs(os.path.dirname(path), exist_ok=True)
        tmp = path + ".peer-tmp"
        f = dict(e.get("file", {}))
        f.setdefault("content", 100)
        write_file(tmp, dict(content=f.get("content", 100), mode=0o444, at_s=f.get("at_s", 0), at_ns=f.get("at_ns", 0), mt_s=f.get("mt_s", 0), mt_ns=f.get("mt_ns", 0)))
        os.rename(tmp, path)
    elif e["action"] == "restamp" and os.path.exists(path):
        f = e.get("file", {})
        os.utime(path, ns=(tmap(f.get("at_s", 0)) * 10**9 + f.get("at_ns", 0), tmap(f.get("mt_s", 0)) * 10**9 + f.get("mt_ns", 0)))


def run_with_env(scen, nat, profile, action, pre_actions=()):
    """Run the scenario's operation natively, holding the process right before its call number
    `action.before_call` (strace delivers SIGSTOP when the preceding system call returns) while the
    driver performs the peer's step.  -> observation dict, or None when the point cannot be located."""
    root0 = nat.sandbox()
    try:
        nat.materialise(root0, scen)
        for pa in pre_actions:
            apply_env_action(root0, pa)
        args0 = op_args(scen, root0)
        if args0 is None:
            return None
        calls = full_strace(nat, args0, profile)
    finally:
        shutil.rmtree(root0, ignore_errors=True)
    begin = next((i for i, (n, ln) in enumerate(calls) if "kvreplay-marker-begin" in ln), None)
    if begin is None:
        return None
    amap = align_calls(scen, calls, begin)
    n = action["before_call"]
    if n not in amap:
        return None
    stop_idx = amap[n] - 1          # the system call after which we stop
    stop_name = calls[stop_idx][0]
    count = sum(1 for (nm, _l) in calls[:stop_idx + 1] if nm == stop_name)
    root = nat.sandbox()
    try:
        nat.materialise(root, scen)
        for pa in pre_actions:
            apply_env_action(root, pa)
        args = op_args(scen, root)
        before = snapshot(root)
        slog = tempfile.mktemp(prefix="kvr-strace-")
        cmd = ["strace", "-f", "-y", "-o", slog, "-e", "trace=%file,%desc,fsync,fdatasync", "-e", "inject=%s:signal=SIGSTOP:when=%d" % (stop_name, count),
               nat.bins[profile]] + [str(a) for a in args]
        p = subprocess.Popen(cmd, stdout=subprocess.PIPE, stderr=subprocess.PIPE)
        stopped = False
        t0 = time.time()
        while time.time() - t0 < 30 and p.poll() is None:
            try:
                txt = open(slog, errors="replace").read()
            except OSError:
                txt = ""
            m = re.search(r"^(\d+)\s+--- stopped by SIGSTOP ---", txt, re.M)
            if m:
                apply_env_action(root, action)
                os.kill(int(m.group(1)), 18)  # SIGCONT
                stopped = True
                break
            time.sleep(0.02)
        if not stopped and p.poll() is None:
            p.kill()
        out, _err = p.communicate(timeout=60)
        after = snapshot(root)
        lines = open(slog, errors="replace").read().splitlines() if os.path.exists(slog) else []
        if os.path.exists(slog):
            os.remove(slog)
        return dict(out=parse_out(out.decode(errors="replace").splitlines()), raw=out.decode(errors="replace").splitlines(), before=before, after=after,
                    stopped=stopped, stop_after="%s #%d" % (stop_name, count), action=action, strace_tail=lines[-12:])
    finally:
        shutil.rmtree(root, ignore_errors=True)


def env_plan(scen):
    """Peer steps that precede our first call are part of the initial state; the latest later step
    is performed while the process is held (earlier later steps are folded into the initial state:
    an approximation - if it does not reproduce, the replay is reported as not reproduced)."""
    env = scen.get("env") or []
    if not env:
        return None, []
    first = min([c["n"] for c in scen["calls"]] or [1])
    later = [e for e in env if e["before_call"] > first]
    if not later:
        return None, env
    last_n = max(e["before_call"] for e in later)
    held = [e for e in later if e["before_call"] == last_n]
    pre = [e for e in env if e not in held]
    return held, pre


def o_env_no_error(scen, nat, msg):
    """C05/C06: with the scenario's peer steps performed at the scenario's instants, the operation must still succeed."""
    held, pre = env_plan(scen)
    if held is None and not pre:
        return None
    hits = []
    tried = []
    for profile in ("debug", "release"):
        if held is None:
            r = run_scenario(scen, nat, profile, tweak=lambda root: [apply_env_action(root, e) for e in pre])
            where = "peer steps before our first call"
        else:
            # several peer steps at the same instant: perform them all while the process is held
            act = dict(held[0])
            r = run_with_env(scen, nat, profile, act, pre_actions=pre + held[1:])
            where = "peer %s of %s right before our call #%d" % (act["action"], act["path"], act["before_call"])
            if r is not None and not r["stopped"]:
                r = None
        if r is None:
            continue
        tried.append((profile, where, r["out"]["result"]))
        if r["out"]["result"] != "ok" or r["out"]["panic"]:
            hits.append((profile, "%s: result %s kind=%s %s" % (where, r["out"]["result"], r["out"]["kind"], r["out"]["panic"] or "")))
    if len(hits) >= 2:
        return dict(reproduced=True, detail="; ".join("%s: %s" % h for h in hits),
                    signature=dict(op=scen["op"]["code"], what="operation fails under concurrent activity"))
    return dict(reproduced=False, detail="operation succeeded natively under the recorded peer steps: %r" % (tried,),
                signature=dict(op=scen["op"]["code"], what="operation fails under concurrent activity"))


def _maint_setup(root, with_debris_link, stale_private):
    """A plain cache directory with one published entry, optionally crash debris (a stale second link to the
    published inode) and a stale private temp file; returns (cache dir, source file)."""
    w = os.path.join(root, "w")
    t = os.path.join(w, ".kismet_temp")
    os.makedirs(t)
    os.makedirs(os.path.join(root, "x"))
    ka = os.path.join(w, "ka")
    with open(ka, "w") as f:
        f.write("value-50")
    os.chmod(ka, 0o444)
    old = (time.time() - 3 * 3600)
    if with_debris_link:
        os.link(ka, os.path.join(t, ".tmpdebris"))
    os.utime(ka, (old, old))
    if stale_private:
        p = os.path.join(t, ".tmpstale")
        with open(p, "w") as f:
            f.write("partial")
        os.utime(p, (old, old))
    src = os.path.join(root, "x", "u0")
    with open(src, "w") as f:
        f.write("value-9")
    return w, src


def o_debris_mode(scen, nat, msg):
    """C02: maintenance that collects crash debris (a stale link to a published inode) leaves the published file read-only."""
    bad = []
    for profile in ("debug", "release"):
        root = nat.sandbox()
        try:
            w, src = _maint_setup(root, True, False)
            nat.run(["plain", "set", w, 1, "kb", src], profile=profile)   # capacity 1: maintenance on every write
            mode = os.stat(os.path.join(w, "ka")).st_mode & 0o777 if os.path.exists(os.path.join(w, "ka")) else None
            if mode is not None and mode & 0o222:
                bad.append((profile, "after maintenance collected the debris link, the published file has mode %o" % mode))
        finally:
            shutil.rmtree(root, ignore_errors=True)
    return verdict(bad, dict(op=dict(code=16)), "published file made writable by temp-directory cleanup", "published file still read-only natively")


def o_cleanup_race(scen, nat, msg):
    """C05: a stale temp file that disappears under the cleaner (another participant removed it first) does not fail the write."""
    bad = []
    for profile in ("debug", "release"):
        root = nat.sandbox()
        try:
            w, src = _maint_setup(root, False, True)
            r = nat.run(["plain", "set", w, 1, "kb", src], profile=profile, strace=["-e", "inject=unlink,unlinkat:error=ENOENT:when=1"])
            out = parse_out(r["out"])
            hit = any(("unlink" in ln and "ENOENT" in ln and "INJECTED" in ln) for ln in r["strace"])
            if hit and (out["result"] != "ok" or out["panic"]):
                bad.append((profile, "the cleaner's unlink found the stale temp file gone and the write failed: result=%s kind=%s" % (out["result"], out["kind"])))
        finally:
            shutil.rmtree(root, ignore_errors=True)
    return verdict(bad, dict(op=dict(code=16)), "a write fails because a competing cleaner removed a stale temp file first", "the write succeeds natively")


def _stamp(path, at_ns, mt_ns):
    os.utime(path, ns=(at_ns, mt_ns))


def o_read_mark_boundaries(scen, nat, msg):
    """C07: the scan's read mark is exactly `atime >= mtime` at full timestamp resolution.  Two boundary
    directories, each pruned to one entry with the real library: (i) `old` written at T+0.6 s with its
    last access at T+0.1 s (never read since) and a younger unread `new`: `old` is the victim;
    (ii) `r` with atime == mtime (read) and a younger unread `u`: `u` is the victim, `r` is re-queued."""
    import shutil
    T = 1_600_000_000 * 10**9
    bad = []
    for profile in ("debug", "release"):
        root = nat.sandbox()
        try:
            why = []
            d1 = os.path.join(root, "w1"); os.makedirs(d1)
            for name, at, mt in (("old", T + 10**8, T + 6 * 10**8), ("new", T + 880 * 10**9, T + 1000 * 10**9)):
                open(os.path.join(d1, name), "w").write(name); _stamp(os.path.join(d1, name), at, mt)
            nat.run(["prune", d1, 1], profile=profile)
            left = sorted(os.listdir(d1))
            if left != ["new"]:
                why.append("unread `old` (atime < mtime within one second) survived instead of `new`: left %r" % left)
            d2 = os.path.join(root, "w2"); os.makedirs(d2)
            for name, at, mt in (("r", T + 5 * 10**8, T + 5 * 10**8), ("u", T - 100 * 10**9, T + 10 * 10**9)):
                open(os.path.join(d2, name), "w").write(name); _stamp(os.path.join(d2, name), at, mt)
            nat.run(["prune", d2, 1], profile=profile)
            left = sorted(os.listdir(d2))
            if left != ["r"]:
                why.append("read `r` (atime == mtime) was not spared: left %r" % left)
            if why:
                bad.append((profile, "; ".join(why)))
        finally:
            shutil.rmtree(root, ignore_errors=True)
    return verdict(bad, scen, "the read mark deviates from atime >= mtime at sub-second resolution", "read marks at the sub-second boundaries are honoured natively")


def o_lookup_marks_used(scen, nat, msg):
    """C09: after a lookup the entry counts as recently used whatever the kernel did on open.  `ka` has
    its last access 0.6 s before its modification time, inside the same second (so a kernel that leaves
    the access time alone leaves it unread); the lookup's re-touch step runs on the opened file without
    reading it; then the directory is pruned to one entry: the younger unread `kb` must be the victim and
    `ka` keeps its content."""
    import shutil
    T = 1_600_000_000 * 10**9
    bad = []
    for profile in ("debug", "release"):
        root = nat.sandbox()
        try:
            d = os.path.join(root, "w"); os.makedirs(d)
            for name, at, mt in (("ka", T + 10**8, T + 7 * 10**8), ("kb", T + 80 * 10**9, T + 200 * 10**9)):
                open(os.path.join(d, name), "w").write(name); _stamp(os.path.join(d, name), at, mt)
            r = nat.run(["raw", "opentouch", os.path.join(d, "ka")], profile=profile)
            st = os.stat(os.path.join(d, "ka"))
            nat.run(["prune", d, 1], profile=profile)
            left = sorted(os.listdir(d))
            if "result ok" in r["out"] and (left != ["ka"] or st.st_mtime_ns != T + 7 * 10**8):
                bad.append((profile, "after a successful lookup step the entry was not recognised as used (left %r, mtime moved: %s)" % (left, st.st_mtime_ns != T + 7 * 10**8)))
        finally:
            shutil.rmtree(root, ignore_errors=True)
    return verdict(bad, scen, "a looked-up entry is not recognised as recently used", "the looked-up entry was spared natively")


def o_touch_marks_used(scen, nat, msg):
    """C09: after a successful touch the entry counts as recently used and keeps its queue position.  Same
    boundary directory as o_lookup_marks_used, with the real `raw_cache::touch` as the operation."""
    import shutil
    T = 1_600_000_000 * 10**9
    bad = []
    for profile in ("debug", "release"):
        root = nat.sandbox()
        try:
            d = os.path.join(root, "w"); os.makedirs(d)
            for name, at, mt in (("ka", T + 10**8, T + 7 * 10**8), ("kb", T + 80 * 10**9, T + 200 * 10**9)):
                open(os.path.join(d, name), "w").write(name); _stamp(os.path.join(d, name), at, mt)
            r = nat.run(["raw", "touch", os.path.join(d, "ka")], profile=profile)
            st = os.stat(os.path.join(d, "ka"))
            nat.run(["prune", d, 1], profile=profile)
            left = sorted(os.listdir(d))
            if "result ok" in r["out"] and (left != ["ka"] or st.st_mtime_ns != T + 7 * 10**8):
                bad.append((profile, "after a successful touch the entry was not recognised as used or moved in the queue (left %r, mtime moved: %s)" % (left, st.st_mtime_ns != T + 7 * 10**8)))
        finally:
            shutil.rmtree(root, ignore_errors=True)
    return verdict(bad, scen, "a touched entry is not recognised as recently used / is re-queued", "the touched entry was spared natively with its queue position")


ORACLES = [
    (r"KV-C09: (a touched entry is|after a touch the entry is) recognised as recently used|KV-C09: touch keeps the queue position|KV-C09: a touch changes neither queue position", o_touch_marks_used),
    (r"KV-C09: a get does not change the queue position", o_lookup_marks_used),
    (r"KV-C07: read mark is atime >= mtime", o_read_mark_boundaries),
    (r"KV-C09: after a get the entry is recognised as recently used", o_lookup_marks_used),
    (r"collecting crash debris never re-modes|a published file is never re-moded", o_debris_mode),
    (r"temp cleanup succeeds when another participant removes", o_cleanup_race),
    (r"KV-C05: ", o_env_no_error),
    (r"KV-C17: application dot-files|KV-C17: application data next to the cache", o_dotfile_untouched),
    (r"KV-C17: temp files younger|KV-C02: temp files older", o_temp_age),
    (r"KV-C03: a failed flush is never followed by publication", o_flush_failed_published),
    (r"files are made read-only before they become visible|a published file is never re-moded", o_readonly_before_visible),
    (r"every key-named file is a complete read-only value", o_readonly_before_visible),
    (r"KV-C09: a fresh(ly)? (set|written|inserted) entry is not marked as used", o_fresh_not_accessed),
    (r"KV-C18: temporary files created by the library are not leaked", o_temp_leak),
    (r"KV-C11: a sharded cache never holds two copies", o_two_copies),
    (r"KV-C14: ", o_checker_bypassed),
    (r"KV-C19: .*offset 0", o_offset_zero),
    (r"KV-C15: ", o_readonly_root_mutated),
    (r"KV-C20: outside maintenance a write never lists", o_lists_directory),
    (r"KV-C13: Replace returns the newly populated value|KV-C04: concurrent ensure calls", o_peer_put_during_populate),
    (r"KV-C16: an operation on an invalid name modifies nothing", o_invalid_name_modifies),
    (r"KV-C16: a filesystem call names a path outside", o_outside_universe),
]


def capture(scratch, unit, needle):
    """Re-run the harness with dumps and CBMC's trace; -> scenario dict or None."""
    scratch.write_cfg(True)
    try:
        r = core.run_kani(scratch, unit.name, group=unit.group, timeout=unit.timeout, mem_gb=unit.mem_gb, unwind_rules=unit.rules,
                          extra_args=["--output-format", "old"] + core.lean_args(unit), trace=True)
    finally:
        scratch.write_cfg(False)
    sc = decode_dumps(r.log, needle)
    if sc is None or not sc["op"]:
        return None, r
    return scenario_from_dumps(sc, unit.name), r


def replay(pid, rec, scratch):
    u = rec["unit"]
    cands = rec["cls"]["candidates"]
    msgs = [c["desc"] for c in cands]
    nat = getattr(scratch, "_native", None)
    if nat is None:
        nat = scratch._native = Native(scratch)
    os.makedirs(os.path.join(REPLAY_DIR, pid), exist_ok=True)
    path = os.path.join(REPLAY_DIR, pid, u.name + ".json")
    first = msgs[0]
    needle = first.split(": ", 1)[-1][:50]
    scen, _r = capture(scratch, u, needle)
    doc = dict(property=pid, mode="scenario", harness=u.name, group=u.group, failing_assertions=msgs, scenario=scen,
               created=time.strftime("%Y-%m-%dT%H:%M:%S"))
    if scen is None:
        json.dump(doc, open(path, "w"), indent=1)
        return dict(reproduced=False, mode="scenario", path=path, detail="could not decode a scenario from the solver's trace")
    nat.build()
    last = None
    for msg in msgs:
        for rx, fn in ORACLES:
            if re.search(rx, msg):
                out = fn(scen, nat, msg)
                if out is None:
                    continue
                last = out
                if not out["reproduced"]:
                    continue   # another recipe registered for the same assertion may still reproduce it
                doc["native"] = out
                json.dump(doc, open(path, "w"), indent=1, default=str)
                sig = dict(out.get("signature", {}), harness=u.name, assertions=msgs)
                return dict(reproduced=True, mode="scenario", path=path, detail=out["detail"][:600], signature=sig)
    if last is not None:
        doc["native"] = last
        json.dump(doc, open(path, "w"), indent=1, default=str)
        sig = dict(last.get("signature", {}), harness=u.name, assertions=msgs)
        return dict(reproduced=False, mode="scenario", path=path, detail=last["detail"][:600], signature=sig)
    json.dump(doc, open(path, "w"), indent=1)
    return dict(reproduced=False, mode="scenario", path=path, detail="no native counterpart for: " + first)


def replay_file(doc, path):
    scen = doc["scenario"]
    scratch = core.Scratch([])
    try:
        nat = Native(scratch)
        nat.build()
        for msg in doc["failing_assertions"]:
            for rx, fn in ORACLES:
                if re.search(rx, msg):
                    out = fn(scen, nat, msg)
                    if out is None:
                        continue
                    print(json.dumps(out, indent=1, default=str))
                    if out["reproduced"]:
                        print("VIOLATION property=%s replay=%s" % (doc["property"], path))
                        return 1
                    print("replay: counterexample no longer reproduces")
                    return 0
    finally:
        scratch.cleanup()
    print("replay: no native counterpart")
    return 2
