"""Replay of KFS counterexamples against the real library on the real filesystem.

Pipeline for a failed `KV-Cxx` assertion of a KFS harness:
  1. re-run the harness with scenario dumping on and CBMC's trace (`--cbmc-args --trace`);
  2. decode the solver's model into a *scenario*: directory tree before the operation (names,
     modes, times, contents), configuration, the operation and its arguments, the environment
     actions (which peer step happened before which of our calls) and the injected fault;
  3. materialise the tree in a sandbox, run the operation with the real library
     (replay/kvreplay, dev and release builds) under strace — which also injects the fault
     (`-e inject=...:error=`) and holds the process at a system call while the driver performs a
     peer's step (`-e inject=...:delay_enter=`);
  4. evaluate the native counterpart of the failed assertion (ORACLES) on what was observed.
Reproduced => VIOLATION; not reproduced or no native counterpart => inconclusive (exit 2).
"""
import json
import os
import re
import shutil
import stat
import subprocess
import tempfile
import time

from . import core
from .core import log

REPLAY_DIR = os.path.join(core.VERIF, "replays")

KIND_CACHE, KIND_TEMP, KIND_SROOT, KIND_EXT = 0, 1, 2, 3
SLOT_NAMES = {KIND_CACHE: ["ka", "kb", ".p", "sd", "kc"], KIND_TEMP: ["t0", "t1", "t2", "u0", "o0"], KIND_EXT: ["u0", "u1", "", "", ""]}
CALL_KINDS = ["stat", "chmod", "rename", "link", "unlink", "mkdir", "readdir", "open", "fstat", "fsync", "utimes", "futimes", "mktemp",
              "fchmod", "dstat", "copy", "read"]
SYSCALLS = {"stat": ["statx", "newfstatat", "stat", "lstat"], "chmod": ["chmod", "fchmodat"], "rename": ["rename", "renameat", "renameat2"],
            "link": ["link", "linkat"], "unlink": ["unlink", "unlinkat"], "mkdir": ["mkdir", "mkdirat"], "open": ["openat", "open"],
            "fsync": ["fsync", "fdatasync"], "utimes": ["utimensat"], "futimes": ["utimensat"], "fchmod": ["fchmod"], "fstat": ["statx", "fstat", "newfstatat"],
            "readdir": ["getdents64"], "dstat": ["statx", "newfstatat"], "mktemp": ["openat"], "copy": ["copy_file_range", "sendfile", "write"], "read": ["read"]}
NONE = 255


def dir_kind(d):
    if d == 20:
        return KIND_EXT
    if d < 6:
        return KIND_CACHE if d % 2 == 0 else KIND_TEMP
    if d in (6, 13):
        return KIND_SROOT
    rel = d - 14 if d > 13 else d - 7
    return KIND_CACHE if rel % 2 == 0 else KIND_TEMP


def dir_rel(d):
    if d == 20:
        return "x"
    if d < 6:
        return "wrq"[d // 2] + ("/.kismet_temp" if d % 2 else "")
    root, rel = ("p", d - 13) if d >= 13 else ("s", d - 6)
    if rel == 0:
        return root
    k = (rel - 1) // 2
    return "%s/.kismet_%04x%s" % (root, k, "/.kismet_temp" if (rel - 1) % 2 else "")


def slot_rel(d, s):
    return dir_rel(d) + "/" + SLOT_NAMES[dir_kind(d)][s]


# ---------------------------------------------------------------------------------------------
def decode_dumps(trace_text, needle):
    """Collect the dump() values from the trace section of the failing assertion."""
    from . import cbmctrace
    body = cbmctrace.section_for(trace_text, needle)
    if body is None:
        return None
    vals = []
    for m in re.finditer(r"^  \S*DUMPV\[\d+[ul]*\]=(\d+)", body, re.M):
        vals.append(int(m.group(1)))
    # any() return values carry the same numbers even when the array store was simplified away
    for m in re.finditer(r"=(\d{19,20})(?:ul)? \(", body):
        v = int(m.group(1))
        if v >> 63 == 1:
            vals.append(v)
    sc = dict(cfg={}, dirs={}, slots={}, inodes={}, op={}, calls={}, env={}, envino={}, fault={})
    for v in vals:
        tag = (v >> 56) & 0x7f
        idx = (v >> 44) & 0xfff
        val = (v & ((1 << 44) - 1)) - (1 << 43)
        if tag == 1:
            sc["cfg"][idx] = val
        elif tag == 2:
            sc["dirs"][idx] = val
        elif tag == 3:
            sc["slots"][(idx // 8, idx % 8)] = val
        elif 4 <= tag < 4 + 15:
            sc["inodes"].setdefault(idx, {})[tag - 4] = val
        elif tag == 24:
            sc["op"][idx] = val
        elif tag == 25:
            sc["calls"][idx] = (val & 0xff, (val >> 8) & 0xff, (val >> 16) & 0xff)
        elif tag == 26:
            sc["env"][idx] = dict(before_call=val & 0xffff, dir=(val >> 16) & 0xff, slot=(val >> 24) & 0xff, action=(val >> 32) & 0xff)
        elif tag == 27:
            sc["fault"][idx] = val
        elif 32 <= tag < 32 + 15:
            sc["envino"].setdefault(idx, {})[tag - 32] = val
    return sc


INO_FIELDS = ["used", "nlink", "is_dir", "mode", "mt_s", "mt_ns", "at_s", "at_ns", "content", "key_tag", "complete", "dirty", "own", "foreign", "published"]


def scenario_from_dumps(sc, harness):
    """A JSON-able description."""
    out = dict(harness=harness, config=dict(policy=sc["cfg"].get(0), gran=sc["cfg"].get(1), env=sc["cfg"].get(2), auto_sync=sc["cfg"].get(3),
                                            fail_at=sc["cfg"].get(4), fail_errno=sc["cfg"].get(5), now_s=sc["cfg"].get(6), now_ns=sc["cfg"].get(7)),
               op=dict(code=sc["op"].get(0), a0=sc["op"].get(1), a1=sc["op"].get(2), a2=sc["op"].get(3), a3=sc["op"].get(4), a4=sc["op"].get(5)),
               dirs=[], files=[], calls=[], env=[], fault=None)
    for d, v in sorted(sc["dirs"].items()):
        if v & 1:
            out["dirs"].append(dict(id=d, path=dir_rel(d), readonly_root=bool(v & 2), shared=bool(v & 4)))
    for (d, s), ino in sorted(sc["slots"].items()):
        if ino != NONE and ino in sc["inodes"] and s < 5 and SLOT_NAMES[dir_kind(d)][s]:
            f = {INO_FIELDS[k]: val for k, val in sc["inodes"][ino].items()}
            f.update(path=slot_rel(d, s), dir=d, slot=s, inode=ino)
            out["files"].append(f)
    for n, (kind, d, s) in sorted(sc["calls"].items()):
        out["calls"].append(dict(n=n, kind=CALL_KINDS[kind] if kind < len(CALL_KINDS) else str(kind), dir=d, slot=s))
    for seq, e in sorted(sc["env"].items()):
        e = dict(e)
        e["action"] = {1: "unlink", 2: "publish", 3: "restamp", 4: "mkdir"}.get(e["action"], str(e["action"]))
        e["path"] = dir_rel(e["dir"]) if e["slot"] == NONE else slot_rel(e["dir"], e["slot"])
        if seq in sc["envino"]:
            e["file"] = {INO_FIELDS[k]: val for k, val in sc["envino"][seq].items()}
        out["env"].append(e)
    if sc["fault"]:
        v = sc["fault"].get(0, 0)
        kind = (v >> 16) & 0xff
        out["fault"] = dict(call=v & 0xffff, kind=CALL_KINDS[kind] if kind < len(CALL_KINDS) else str(kind), occurrence=(v >> 24) & 0xff,
                            errno=sc["fault"].get(1))
    return out


# ---------------------------------------------------------------------------------------------
class Native:
    """Builds kvreplay against the scratch copy of the crate (once per check run) and runs it."""

    def __init__(self, scratch):
        self.scratch = scratch
        self.bins = {}

    def build(self):
        if self.bins:
            return
        src = os.path.join(core.VERIF, "replay", "kvreplay")
        dst = os.path.join(self.scratch.dir, "replay-kvreplay")
        if os.path.exists(dst):
            shutil.rmtree(dst)
        shutil.copytree(src, dst)
        toml = open(os.path.join(dst, "Cargo.toml")).read().replace('path = "../crate"', 'path = "%s"' % self.scratch.dir)
        open(os.path.join(dst, "Cargo.toml"), "w").write(toml)
        shutil.copy(os.path.join(self.scratch.dir, "Cargo.lock"), os.path.join(dst, "Cargo.lock"))
        td = os.path.join(self.scratch.dir, "td-replay")
        for profile, flag in (("debug", []), ("release", ["--release"])):
            p = subprocess.run(["cargo", "build", "--offline", "--target-dir", td] + flag, cwd=dst, env=core.ENV,
                               stdout=subprocess.PIPE, stderr=subprocess.STDOUT)
            if p.returncode != 0:
                raise RuntimeError("kvreplay build failed: " + p.stdout.decode(errors="replace")[-1500:])
            self.bins[profile] = os.path.join(td, profile, "kvreplay")

    def sandbox(self):
        return tempfile.mkdtemp(prefix="kvr-")

    def materialise(self, root, scen, override=None):
        """Create the directory tree of the scenario under root."""
        for d in scen["dirs"]:
            os.makedirs(os.path.join(root, d["path"]), exist_ok=True)
        done = {}
        for f in scen["files"]:
            path = os.path.join(root, f["path"])
            os.makedirs(os.path.dirname(path), exist_ok=True)
            if f.get("is_dir"):
                os.makedirs(path, exist_ok=True)
                continue
            if f["inode"] in done:
                os.link(done[f["inode"]], path)
                continue
            write_file(path, f)
            done[f["inode"]] = path

    def run(self, args, profile="release", strace=None, timeout=120, cwd=None):
        """-> dict(out=stdout lines, rc, strace=[lines])"""
        cmd = [self.bins[profile]] + [str(a) for a in args]
        slog = None
        if strace is not None:
            slog = tempfile.mktemp(prefix="kvr-strace-")
            cmd = ["strace", "-f", "-y", "-o", slog, "-e", "trace=%file,%desc,fsync,fdatasync"] + strace + cmd
        p = subprocess.run(cmd, stdout=subprocess.PIPE, stderr=subprocess.PIPE, timeout=timeout, cwd=cwd)
        res = dict(out=p.stdout.decode(errors="replace").splitlines(), rc=p.returncode, err=p.stderr.decode(errors="replace")[-400:], strace=[])
        if slog and os.path.exists(slog):
            lines = open(slog, errors="replace").read().splitlines()
            # keep only the operation itself (between the two markers)
            keep, on = [], False
            for ln in lines:
                if "kvreplay-marker-begin" in ln:
                    on = True
                    continue
                if "kvreplay-marker-end" in ln:
                    on = False
                if on:
                    keep.append(ln)
            res["strace"] = keep
            os.remove(slog)
        return res


def write_file(path, f):
    with open(path, "wb") as fh:
        fh.write(b"value-%d" % f.get("content", 0))
    os.chmod(path, f.get("mode", 0o444) & 0o777)
    at = max(0, f.get("at_s", 0)) * 10**9 + f.get("at_ns", 0)
    mt = max(0, f.get("mt_s", 0)) * 10**9 + f.get("mt_ns", 0)
    os.utime(path, ns=(at, mt))


def snapshot(root):
    """{relative path: dict(kind, mode, mtime_ns, atime_ns, content, nlink)}"""
    snap = {}
    for dp, dns, fns in os.walk(root):
        for n in dns + fns:
            p = os.path.join(dp, n)
            st = os.lstat(p)
            rel = os.path.relpath(p, root)
            e = dict(kind="dir" if stat.S_ISDIR(st.st_mode) else "file", mode=st.st_mode & 0o7777, mtime_ns=st.st_mtime_ns,
                     atime_ns=st.st_atime_ns, nlink=st.st_nlink)
            if e["kind"] == "file":
                try:
                    e["content"] = open(p, "rb").read(200).decode(errors="replace")
                except OSError as ex:
                    e["content"] = "<%s>" % ex
            snap[rel] = e
    return snap


def parse_out(lines):
    r = dict(result=None, value=None, handle=None, panic=None, kind=None, os=None)
    for ln in lines:
        if ln.startswith("result ok"):
            r["result"] = "ok"
        elif ln.startswith("result err"):
            r["result"] = "err"
            m = re.search(r"kind=(\w+) os=(\w+)(?:\((\d+)\))?", ln)
            if m:
                r["kind"] = m.group(1)
                r["os"] = m.group(3)
        elif ln.startswith("value "):
            r["value"] = ln[6:]
        elif ln.startswith("handle "):
            r["handle"] = dict(re.findall(r"(\w+)=(\S*)", ln))
        elif ln.startswith("panic"):
            r["panic"] = ln[6:]
    return r


# ---------------------------------------------------------------------------------------------
def op_args(scen, root):
    """kvreplay command line for the scenario's operation (None if this opcode has no direct native counterpart)."""
    op = scen["op"]
    code = op["code"]
    cap = op["a0"] if op["a0"] is not None else 10
    w = os.path.join(root, "w")
    src = os.path.join(root, "x", "u0")
    if code in (1, 2, 3, 4):
        name = {1: "get", 2: "touch", 3: "set", 4: "put"}[code]
        return ["plain", name, w, cap, "ka"] + ([src] if code >= 3 else [])
    if code == 15:
        return ["prune", w, 0]
    return None


def strace_calls(lines, names):
    """Indices and text of the strace lines whose syscall is one of names."""
    out = []
    for i, ln in enumerate(lines):
        m = re.match(r"^\d+\s+(\w+)\(", ln)
        if m and m.group(1) in names:
            out.append((i, ln))
    return out


# --- native counterparts of KV assertions -----------------------------------------------------------
def o_dotfile_untouched(scen, nat, msg):
    """C17: prune(dir, 0) on the scenario's directory must leave the application dot-file alone."""
    root = nat.sandbox()
    try:
        nat.materialise(root, scen)
        before = snapshot(root)
        dots = [p for p in before if os.path.basename(p).startswith(".") and not os.path.basename(p).startswith(".kismet") and before[p]["kind"] == "file"]
        res = {}
        bad = []
        for profile in ("debug", "release"):
            r2 = nat.sandbox()
            nat.materialise(r2, scen)
            b2 = snapshot(r2)
            out = nat.run(["prune", os.path.join(r2, "w"), 0], profile=profile)
            a2 = snapshot(r2)
            for p in dots:
                if p not in a2 or a2[p]["mtime_ns"] != b2[p]["mtime_ns"] or a2[p]["content"] != b2[p]["content"]:
                    bad.append((profile, p, "deleted" if p not in a2 else "altered"))
            res[profile] = out["out"]
            shutil.rmtree(r2, ignore_errors=True)
        return dict(reproduced=len(bad) >= 2, detail="raw_cache::prune(dir, 0): %r; output %r" % (bad, res),
                    signature=dict(op="prune", victim="dot-file", what="application dot-file removed by maintenance"))
    finally:
        shutil.rmtree(root, ignore_errors=True)


def run_op_both(scen, nat, strace=None, tweak=None):
    """Materialise + run the scenario's own operation in both profiles. -> {profile: dict(out, before, after, strace)}"""
    res = {}
    for profile in ("debug", "release"):
        root = nat.sandbox()
        try:
            nat.materialise(root, scen)
            if tweak:
                tweak(root)
            args = op_args(scen, root)
            if args is None:
                return None
            before = snapshot(root)
            r = nat.run(args, profile=profile, strace=strace)
            after = snapshot(root)
            res[profile] = dict(out=parse_out(r["out"]), raw=r["out"], before=before, after=after, strace=r["strace"], root=root)
        finally:
            shutil.rmtree(root, ignore_errors=True)
    return res


def o_readonly_before_visible(scen, nat, msg):
    """C02/C03/C01: at the publishing call (rename/link onto the key name) the file must already be read-only."""
    res = run_op_both(scen, nat, strace=[])
    if res is None:
        return None
    bad = []
    for profile, r in res.items():
        lines = r["strace"]
        pubs = [(i, ln) for (i, ln) in strace_calls(lines, ["rename", "renameat", "renameat2", "link", "linkat"]) if "/w/ka" in ln and "= 0" in ln]
        chmods = [(i, ln) for (i, ln) in strace_calls(lines, ["chmod", "fchmodat", "fchmod"]) if "= 0" in ln]
        srcmode = next((f["mode"] for f in scen["files"] if f["path"] == "x/u0"), 0)
        if pubs and (srcmode & 0o222):
            first_pub = pubs[0][0]
            if not any(i < first_pub for (i, _l) in chmods):
                bad.append((profile, "publishing call precedes chmod: " + pubs[0][1][:120]))
    return dict(reproduced=len(bad) >= 2, detail="; ".join("%s: %s" % b for b in bad) or "chmod precedes publication natively",
                signature=dict(op=scen["op"]["code"], what="published before being made read-only"))


def o_fresh_not_accessed(scen, nat, msg):
    """C09: a freshly written entry must not look 'recently used' on a filesystem with coarse (1-2 s) timestamps:
    its atime must be clearly (>= 2 s) earlier than its mtime."""
    res = run_op_both(scen, nat)
    if res is None:
        return None
    bad = []
    for profile, r in res.items():
        e = r["after"].get("w/ka")
        if e and r["out"]["result"] == "ok" and e["content"] == "value-9":
            if e["mtime_ns"] - e["atime_ns"] < 2 * 10**9:
                bad.append((profile, "mtime - atime = %.3f s" % ((e["mtime_ns"] - e["atime_ns"]) / 1e9)))
    return dict(reproduced=len(bad) >= 2, detail="; ".join("%s: %s" % b for b in bad) or "atime is >= 2 s before mtime natively",
                signature=dict(op=scen["op"]["code"], what="fresh entry would be marked as used on a coarse-granularity filesystem"))


ORACLES = [
    (r"KV-C17: application dot-files", o_dotfile_untouched),
    (r"KV-C17: application data next to the cache", o_dotfile_untouched),
    (r"KV-C03: files are made read-only before they become visible", o_readonly_before_visible),
    (r"KV-C02: every key-named file is a complete read-only value", o_readonly_before_visible),
    (r"KV-C09: a fresh(ly)? (set|written|inserted) entry is not marked as used", o_fresh_not_accessed),
]


def capture(scratch, unit, needle):
    """Re-run the harness with dumps and CBMC's trace; -> scenario dict or None."""
    scratch.write_cfg(True)
    try:
        r = core.run_kani(scratch, unit.name, group=unit.group, timeout=unit.timeout, mem_gb=unit.mem_gb, unwind_rules=unit.rules,
                          extra_args=["--output-format", "old"], trace=True)
    finally:
        scratch.write_cfg(False)
    sc = decode_dumps(r.log, needle)
    if sc is None or not sc["op"]:
        return None, r
    return scenario_from_dumps(sc, unit.name), r


def replay(pid, rec, scratch):
    u = rec["unit"]
    cands = rec["cls"]["candidates"]
    msgs = [c["desc"] for c in cands]
    nat = getattr(scratch, "_native", None)
    if nat is None:
        nat = scratch._native = Native(scratch)
    os.makedirs(os.path.join(REPLAY_DIR, pid), exist_ok=True)
    path = os.path.join(REPLAY_DIR, pid, u.name + ".json")
    first = msgs[0]
    needle = first[:60]
    scen, _r = capture(scratch, u, needle)
    doc = dict(property=pid, mode="scenario", harness=u.name, group=u.group, failing_assertions=msgs, scenario=scen,
               created=time.strftime("%Y-%m-%dT%H:%M:%S"))
    if scen is None:
        json.dump(doc, open(path, "w"), indent=1)
        return dict(reproduced=False, mode="scenario", path=path, detail="could not decode a scenario from the solver's trace")
    nat.build()
    for msg in msgs:
        for rx, fn in ORACLES:
            if re.search(rx, msg):
                out = fn(scen, nat, msg)
                if out is None:
                    continue
                doc["native"] = out
                json.dump(doc, open(path, "w"), indent=1, default=str)
                sig = dict(out.get("signature", {}), harness=u.name, assertions=msgs)
                return dict(reproduced=out["reproduced"], mode="scenario", path=path, detail=out["detail"][:600], signature=sig)
    json.dump(doc, open(path, "w"), indent=1)
    return dict(reproduced=False, mode="scenario", path=path, detail="no native counterpart for: " + first)


def replay_file(doc, path):
    scen = doc["scenario"]
    scratch = core.Scratch([])
    try:
        nat = Native(scratch)
        nat.build()
        for msg in doc["failing_assertions"]:
            for rx, fn in ORACLES:
                if re.search(rx, msg):
                    out = fn(scen, nat, msg)
                    if out is None:
                        continue
                    print(json.dumps(out, indent=1, default=str))
                    if out["reproduced"]:
                        print("VIOLATION property=%s replay=%s" % (doc["property"], path))
                        return 1
                    print("replay: counterexample no longer reproduces")
                    return 0
    finally:
        scratch.cleanup()
    print("replay: no native counterpart")
    return 2
