"""Obligation sets of engine M (one function per unit, returning (obligations, meta))."""
from . import mir
from .smt import Obligation

U64MAX = (1 << 64) - 1


def _fresh_executor(funcs, **kw):
    ex = mir.Executor(funcs, **kw)
    return ex


def _fn(funcs, name):
    hits = mir.find_function(funcs, name)
    if len(hits) != 1:
        raise mir.MirError("function %s not found uniquely in the MIR dump (%r)" % (name, hits))
    return hits[0]


def _panic_obligations(ex, prefix, assumptions, functions):
    obs = []
    for i, (desc, pc, cond, where) in enumerate(ex.obligations):
        obs.append(Obligation("%s: %s [%s #%d]" % (prefix, desc, where.split("::")[-1], i), ex.decls,
                              ex.range_asserts + assumptions + pc, cond, functions))
    return obs


def _witness(name, ex, extra, functions):
    """Vacuity guard: the assumptions of the obligations on this path are satisfiable."""
    return Obligation("witness: " + name, ex.decls, ex.range_asserts + extra, "false", functions, expect="sat",
                      note="must be SAT: shows the path/precondition is reachable")


def _ret_cases(results):
    """[(pc, value)] -> SMT: a disjunction-free encoding is kept simple: one obligation per path."""
    return results


# ---------------------------------------------------------------------------------------------
def c12_mapping(funcs, text):
    obs = []
    fnames = []
    # -- reduce ------------------------------------------------------------------------------
    ex = _fresh_executor(funcs)
    x = ex.fresh_int("x", 64)
    n = ex.fresh_int("n", 64)
    f = _fn(funcs, "multiplicative_hash::reduce")
    fnames.append(f)
    res = ex.run(f, [x, n])
    obs += _panic_obligations(ex, "reduce never overflows", [], [f])
    for i, (pc, rv, env) in enumerate(res):
        base = ex.range_asserts + pc
        obs.append(_witness("reduce path %d reachable with n > 0" % i, ex, pc + ["(> %s 0)" % n[1]], [f]))
        obs.append(Obligation("reduce(x,n) = floor(n*x / 2^64) [path %d]" % i, ex.decls, base,
                              "(= %s (div (* %s %s) 18446744073709551616))" % (rv[1], n[1], x[1]), [f]))
        obs.append(Obligation("reduce(x,n) < n for n > 0, = 0 for n = 0 [path %d]" % i, ex.decls, base,
                              "(ite (> %s 0) (and (<= 0 %s) (< %s %s)) (= %s 0))" % (n[1], rv[1], rv[1], n[1], rv[1]), [f],
                              note="integer encoding; the product is exact in u128"))
    models = set(ex.models_used)
    inlined = set(ex.inlined)

    # -- mix ----------------------------------------------------------------------------------
    ex = _fresh_executor(funcs)
    mult = ex.fresh_int("mult", 64)
    add = ex.fresh_int("add", 64)
    v = ex.fresh_int("v", 64)
    h = ("adt", "MultiplicativeHash", 0, {0: mult, 1: add})
    f = _fn(funcs, "multiplicative_hash::mix")
    fnames.append(f)
    res = ex.run(f, [("ref", [h]), v])
    obs += _panic_obligations(ex, "mix never panics", [], [f])
    for i, (pc, rv, env) in enumerate(res):
        obs.append(Obligation("mix(v) = (v*multiplier + addend) mod 2^64 [path %d]" % i, ex.decls, ex.range_asserts + pc,
                              "(= %s (mod (+ (* %s %s) %s) 18446744073709551616))" % (rv[1], v[1], mult[1], add[1]), [f]))
    models |= set(ex.models_used)
    inlined |= set(ex.inlined)

    # -- shard_ids (inlines map, mix, reduce, other_shard_id) -----------------------------------
    ex = _fresh_executor(funcs)
    m1 = ex.fresh_int("m1", 64)
    a1 = ex.fresh_int("a1", 64)
    m2 = ex.fresh_int("m2", 64)
    a2 = ex.fresh_int("a2", 64)
    h1 = ex.fresh_int("h1", 64)
    h2 = ex.fresh_int("h2", 64)
    ns = ex.fresh_int("num_shards", 64)
    prim = ("ref", [("adt", "MultiplicativeHash", 0, {0: m1, 1: a1})])
    sec = ("ref", [("adt", "MultiplicativeHash", 0, {0: m2, 1: a2})])
    # the two promoted constants of shard_ids: which one is PRIMARY is read from the dump itself
    consts = {}
    import re
    for m in re.finditer(r"const (sharded::<impl at [^>]*>::shard_ids::promoted\[(\d)\]): &MultiplicativeHash = \{(.*?)\n\}", text, re.S):
        which = "PRIMARY" if "PRIMARY_MIXER" in m.group(3) else ("SECONDARY" if "SECONDARY_MIXER" in m.group(3) else None)
        if which is None:
            raise mir.MirError("shard_ids promoted constant does not name a mixer")
        consts["sharded::Cache::shard_ids::promoted[%s]" % m.group(2)] = prim if which == "PRIMARY" else sec
    if len(consts) != 2:
        raise mir.MirError("expected two promoted mixer constants in shard_ids, found %d" % len(consts))
    ex.const_values = consts
    cache = ("adt", "sharded::Cache", 0, {0: ("opaque", "0", "loads"), 1: ("opaque", "0", "dir"), 2: ("opaque", "0", "trigger"),
                                          3: ns, 4: ("opaque", "0", "cap")})
    key = ("adt", "Key", 0, {0: ("opaque", "0", "name"), 1: h1, 2: h2})
    f = _fn(funcs, "sharded::shard_ids")
    fnames.append(f)
    res = ex.run(f, [("ref", [cache]), key])
    pre = ["(>= %s 2)" % ns[1]]
    obs += _panic_obligations(ex, "shard_ids never overflows", pre, [f])
    P = "(div (* %s (mod (+ (* %s %s) %s) 18446744073709551616)) 18446744073709551616)" % (ns[1], h1[1], m1[1], a1[1])
    S = "(div (* %s (mod (+ (* %s %s) %s) 18446744073709551616)) 18446744073709551616)" % (ns[1], h2[1], m2[1], a2[1])
    S2 = "(ite (not (= %s %s)) %s (ite (< (+ %s 1) %s) (+ %s 1) 0))" % (S, P, S, S, ns[1], S)
    for i, (pc, rv, env) in enumerate(res):
        base = ex.range_asserts + pre + pc
        obs.append(_witness("shard_ids path %d reachable" % i, ex, pre + pc, [f]))
        p, s = rv[1][0][1], rv[1][1][1]
        obs.append(Obligation("shard_ids = documented multiply-add-then-scale mapping with collision fix-up [path %d]" % i, ex.decls, base,
                              "(and (= %s %s) (= %s %s))" % (p, P, s, S2), [f],
                              note="mixers symbolic (any multiplier/addend): the constants are pinned by the Kani harness c12_constants"))
        obs.append(Obligation("both shard indices are < n and distinct [path %d]" % i, ex.decls, base,
                              "(and (<= 0 %s) (< %s %s) (<= 0 %s) (< %s %s) (not (= %s %s)))" % (p, p, ns[1], s, s, ns[1], p, s), [f]))
    models |= set(ex.models_used)
    inlined |= set(ex.inlined)
    return obs, dict(models=sorted(models), inlined=sorted(inlined | set(fnames)))


# ---------------------------------------------------------------------------------------------
def c10_trigger(funcs, text):
    obs = []
    # -- PeriodicTrigger::new: scale = ceil((2^64-1)/max(p,1)) --------------------------------------
    ex = _fresh_executor(funcs)
    p = ex.fresh_int("period", 64)
    f = _fn(funcs, "trigger::new")
    res = ex.run(f, [p])
    obs += _panic_obligations(ex, "PeriodicTrigger::new never panics", [], [f])
    P1 = "(ite (= %s 0) 1 %s)" % (p[1], p[1])
    CEIL = "(+ (div 18446744073709551615 %s) (ite (> (mod 18446744073709551615 %s) 0) 1 0))" % (P1, P1)
    scales = []
    for i, (pc, rv, env) in enumerate(res):
        sc = rv[3][0][1]
        scales.append((pc, sc))
        obs.append(Obligation("scale = ceil((2^64-1)/max(period,1)) [path %d]" % i, ex.decls, ex.range_asserts + pc,
                              "(= %s %s)" % (sc, CEIL), [f]))
        obs.append(Obligation("period*scale >= 2^64-1 and scale >= 1 [path %d]" % i, ex.decls, ex.range_asserts + pc,
                              "(and (>= (* %s %s) 18446744073709551615) (>= %s 1))" % (P1, sc, sc), [f],
                              note="the ceil (not floor) is what makes 'never more than period events' exact"))
    models = set(ex.models_used)
    inlined = set(ex.inlined) | {f}

    # -- observe: one inductive step of the countdown ---------------------------------------------
    # ghost k = events since the last fire; invariant I: 1 <= c and c + k*scale <= 2^64-1
    g = _fn(funcs, "observe::{closure#0}")
    ex = _fresh_executor(funcs, models={
        r"RefCell::<u64>::borrow$": m_borrow, r"<Ref<'_, u64> as Deref>::deref$": m_deref,
        r"RefCell::<u64>::replace$": m_replace, r"^regenerate$|trigger::regenerate$": m_regenerate})
    period = ex.fresh_int("period", 64)
    scale = ex.fresh_int("scale", 64)
    c0 = ex.fresh_int("counter", 64)
    k = ex.fresh_int("k", 64)
    weight_cell = [scale]
    counter_cell = [c0]
    closure = ("adt", "closure", 0, {0: ("ref", weight_cell)})
    res = ex.run(g, [closure, ("ref", counter_cell)])
    obs += _panic_obligations(ex, "observe never overflows", [], [g])
    P1 = "(ite (= %s 0) 1 %s)" % (period[1], period[1])
    facts = ["(= %s (+ (div 18446744073709551615 %s) (ite (> (mod 18446744073709551615 %s) 0) 1 0)))" % (scale[1], P1, P1)]
    inv = "(and (>= %s 1) (<= (+ %s (* %s %s)) 18446744073709551615) (< %s %s))" % (c0[1], c0[1], k[1], scale[1], k[1], P1)
    uninit = "(and (= %s 0) (= %s 0))" % (c0[1], k[1])
    for i, (pc, rv, env) in enumerate(res):
        fired = rv[1]
        c1 = env["_2"][0][1][0][1]
        base = ex.range_asserts + facts + pc
        obs.append(_witness("observe path %d reachable" % i, ex, facts + pc + ["(or %s %s)" % (inv, uninit)], [g]))
        # initialised countdown
        obs.append(Obligation("inductive step (initialised): not fired => invariant with k+1, and k+1 < period [path %d]" % i,
                              ex.decls, base + [inv],
                              "(=> (not %s) (and (>= %s 1) (<= (+ %s (* (+ %s 1) %s)) 18446744073709551615) (< (+ %s 1) %s)))"
                              % (fired, c1, c1, k[1], scale[1], k[1], P1), [g],
                              note="hence at most period-1 consecutive events without maintenance, for every period at once"))
        obs.append(Obligation("inductive step (initialised): fired => countdown re-armed with a non-zero value [path %d]" % i,
                              ex.decls, base + [inv], "(=> %s (and (>= %s 1) (<= %s 18446744073709551615)))" % (fired, c1, c1), [g]))
        # first call on a thread
        obs.append(Obligation("first call on a thread: fired, or invariant with k = 1 (and 1 < period) [path %d]" % i,
                              ex.decls, base + [uninit],
                              "(or %s (and (>= %s 1) (<= (+ %s %s) 18446744073709551615) (< 1 %s)))" % (fired, c1, c1, scale[1], P1), [g]))
        obs.append(Obligation("period 0 or 1: every event fires [path %d]" % i, ex.decls,
                              base + ["(<= %s 1)" % period[1], "(or %s %s)" % (inv, uninit)], fired, [g]))
    models |= set(ex.models_used)
    inlined |= set(ex.inlined) | {g}

    # -- plain::Cache::new passes capacity / 3 ------------------------------------------------------
    h = _fn(funcs, "plain::new")
    ex = _fresh_executor(funcs, models={r"PathBuf::push": m_ignore_unit})
    cap = ex.fresh_int("capacity", 64)
    res = ex.run(h, [("opaque", "0", "PathBuf"), cap])
    obs += _panic_obligations(ex, "plain::Cache::new never panics", [], [h])
    C3 = "(div %s 3)" % cap[1]
    P1 = "(ite (= %s 0) 1 %s)" % (C3, C3)
    for i, (pc, rv, env) in enumerate(res):
        trig = rv[3][1]
        sc = trig[3][0][1]
        obs.append(Obligation("plain cache: trigger period = max(1, floor(capacity/3)) [path %d]" % i, ex.decls, ex.range_asserts + pc,
                              "(= %s (+ (div 18446744073709551615 %s) (ite (> (mod 18446744073709551615 %s) 0) 1 0)))" % (sc, P1, P1), [h]))
        obs.append(Obligation("plain cache: capacity field is the capacity passed in [path %d]" % i, ex.decls, ex.range_asserts + pc,
                              "(= %s %s)" % (rv[3][2][1], cap[1]), [h]))
    models |= set(ex.models_used)
    inlined |= set(ex.inlined) | {h}

    # -- composition: count <= capacity + max(1, capacity/3) after every write ------------------------
    # facts: (F1) fired => maintenance precedes the insertion  [Kani: KV-C10 in plain_set/put harnesses]
    #        (F2) after maintenance at most `capacity` files remain [C07]
    #        (F3) k < P at every write [inductive step above]
    decls = [("count", "Int"), ("k", "Int"), ("cap", "Int"), ("fired", "Bool"), ("count2", "Int"), ("k2", "Int"), ("ins", "Int")]
    Pc = "(ite (= (div cap 3) 0) 1 (div cap 3))"
    pre = ["(>= cap 0)", "(>= count 0)", "(>= k 0)", "(< k %s)" % Pc, "(<= count (+ cap 1 k))", "(or (= ins 0) (= ins 1))",
           "(ite fired (and (<= count2 (+ (ite (<= count cap) count cap) ins)) (= k2 0)) (and (= count2 (+ count ins)) (= k2 (+ k 1)) (< k2 %s)))" % Pc]
    obs.append(Obligation("composition: invariant count <= capacity + 1 + k is preserved by every write", decls, pre,
                          "(<= count2 (+ cap 1 k2))", [], note="1-induction over {count, k}; transition facts are the solver verdicts F1-F3"))
    obs.append(Obligation("composition: hence count <= capacity + max(1, floor(capacity/3)) after every write", decls,
                          ["(>= cap 0)", "(>= k2 0)", "(< k2 %s)" % Pc, "(<= count2 (+ cap 1 k2))"],
                          "(<= count2 (+ cap %s))" % Pc, []))
    return obs, dict(models=sorted(models), inlined=sorted(inlined))


# --- models of std calls used by observe ------------------------------------------------------
def m_borrow(ex, args, pc):
    return [([], ("adt", "Ref", 0, {0: args[0]}))]


def m_deref(ex, args, pc):
    guard = ex.project(args[0], ("deref",))
    return [([], guard[3][0])]


def m_replace(ex, args, pc):
    cellref, newv = args
    old = cellref[1][0]
    cellref[1][0] = newv
    return [([], old)]


def m_regenerate(ex, args, pc):
    r = ex.fresh_int("rnd", 64)
    args[0][1][0] = r
    return [(["(>= %s 1)" % r[1]], r)]


def m_ignore_unit(ex, args, pc):
    return [([], ("tuple", []))]


UNITS = {"c12_mapping": c12_mapping, "c10_trigger": c10_trigger}
