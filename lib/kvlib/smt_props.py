"""Obligation sets of engine M (one function per unit, returning (obligations, meta))."""
from . import mir
from .smt import Obligation

U64MAX = (1 << 64) - 1


def _fresh_executor(funcs, **kw):
    ex = mir.Executor(funcs, **kw)
    return ex


def _fn(funcs, name):
    hits = mir.find_function(funcs, name)
    if len(hits) != 1:
        raise mir.MirError("function %s not found uniquely in the MIR dump (%r)" % (name, hits))
    return hits[0]


def _val(model, prefix):
    for k, v in model.items():
        if k.startswith(prefix + "_"):
            return v
    return None


def native_trigger_new(model):
    p = _val(model, "period")
    if p is None:
        return None
    return ("""    let p: u64 = %du64;
    let t = PeriodicTrigger::new(p);
    let p1 = std::cmp::max(p, 1) as u128;
    let scale = t.scale as u128;
    let ceil = (u64::MAX as u128) / p1 + (((u64::MAX as u128) %% p1 > 0) as u128);
    assert!(scale == ceil, "KV-C10: scale = ceil((2^64-1)/max(period,1)): got {} for period {}", scale, p);
    assert!(p1 * scale >= u64::MAX as u128 && scale >= 1, "KV-C10: period*scale >= 2^64-1");""" % p)


def native_reduce(model):
    x, n = _val(model, "x"), _val(model, "n")
    if x is None or n is None:
        return None
    return ("""    let (x, n): (u64, usize) = (%du64, %dusize);
    let r = reduce(x, n);
    assert!(r as u128 == ((n as u128) * (x as u128)) >> 64, "KV-C12: reduce = floor(n*x/2^64)");
    assert!(if n > 0 { r < n } else { r == 0 }, "KV-C12: reduce(x,n) < n");""" % (x, n))


def native_shard_ids(model):
    h1, h2, ns = _val(model, "h1"), _val(model, "h2"), _val(model, "num_shards")
    if None in (h1, h2, ns) or ns > (1 << 16):
        return None
    # expected values are computed here, independently (Python integers + hashlib)
    import hashlib
    consts = []
    for key in (b"kismet: primary shard mixer", b"kismet: secondary shard mixer"):
        d = hashlib.sha256(key).digest()
        consts.append((int.from_bytes(d[0:8], "little") | 1, int.from_bytes(d[8:16], "little")))

    def expected(a, b, n):
        p = (n * ((a * consts[0][0] + consts[0][1]) % (1 << 64))) >> 64
        q = (n * ((b * consts[1][0] + consts[1][1]) % (1 << 64))) >> 64
        collided = q == p
        if collided:
            q = q + 1 if q + 1 < n else 0
        return p, q, collided

    # the solver's model is over abstract mixer constants: with the real constants the same hashes need not
    # collide.  Evaluate the model's point and, for the same and a few other shard counts, points where the two
    # images do collide (even / odd primary, last shard: the wrap-around case).
    cases = [(h1, h2, ns)]
    for n in sorted(set([ns, 2, 3, 5, 8, 64]))[:6]:
        if n < 2:
            continue
        want = {"even": None, "odd": None, "last": None}
        a = 0
        while a < 4000 and None in want.values():
            for b in range(0, 40):
                p, q, col = expected(a, b, n)
                if col:
                    k = "last" if p == n - 1 else ("odd" if p % 2 else "even")
                    if want[k] is None:
                        want[k] = (a, b, n)
            a += 1
        cases += [v for v in want.values() if v is not None]
    body = []
    for (a, b, n) in cases:
        p, q, _c = expected(a, b, n)
        body.append("""    {
        let c = Cache::new(std::path::PathBuf::from("/nonexistent"), %dusize, %dusize);
        let got = c.shard_ids(Key::new("k", %du64, %du64));
        assert!(got == (%dusize, %dusize), "KV-C12: shard_ids = documented mapping: got {:?} for hashes (%d, %d) and %d shards", got);
    }""" % (n, n, a, b, p, q, a, b, n))
    return "\n".join(body)


def _panic_obligations(ex, prefix, assumptions, functions):
    obs = []
    for i, (desc, pc, cond, where) in enumerate(ex.obligations):
        obs.append(Obligation("%s: %s [%s #%d]" % (prefix, desc, where.split("::")[-1], i), ex.decls,
                              ex.range_asserts + assumptions + pc, cond, functions))
    return obs


def _witness(name, ex, extra, functions):
    """Vacuity guard: the assumptions of the obligations on this path are satisfiable."""
    return Obligation("witness: " + name, ex.decls, ex.range_asserts + extra, "false", functions, expect="sat",
                      note="must be SAT: shows the path/precondition is reachable")


def _ret_cases(results):
    """[(pc, value)] -> SMT: a disjunction-free encoding is kept simple: one obligation per path."""
    return results


# ---------------------------------------------------------------------------------------------
def c12_mapping(funcs, text):
    obs = []
    fnames = []
    # -- reduce ------------------------------------------------------------------------------
    ex = _fresh_executor(funcs)
    x = ex.fresh_int("x", 64)
    n = ex.fresh_int("n", 64)
    f = _fn(funcs, "multiplicative_hash::reduce")
    fnames.append(f)
    res = ex.run(f, [x, n])
    obs += _panic_obligations(ex, "reduce never overflows", [], [f])
    for i, (pc, rv, env) in enumerate(res):
        base = ex.range_asserts + pc
        obs.append(_witness("reduce path %d reachable with n > 0" % i, ex, pc + ["(> %s 0)" % n[1]], [f]))
        obs.append(Obligation("reduce(x,n) = floor(n*x / 2^64) [path %d]" % i, ex.decls, base,
                              "(= %s (div (* %s %s) 18446744073709551616))" % (rv[1], n[1], x[1]), [f],
                              native=("src/multiplicative_hash.rs", native_reduce)))
        obs.append(Obligation("reduce(x,n) < n for n > 0, = 0 for n = 0 [path %d]" % i, ex.decls, base,
                              "(ite (> %s 0) (and (<= 0 %s) (< %s %s)) (= %s 0))" % (n[1], rv[1], rv[1], n[1], rv[1]), [f],
                              note="integer encoding; the product is exact in u128"))
    models = set(ex.models_used)
    inlined = set(ex.inlined)

    # -- mix ----------------------------------------------------------------------------------
    ex = _fresh_executor(funcs)
    mult = ex.fresh_int("mult", 64)
    add = ex.fresh_int("add", 64)
    v = ex.fresh_int("v", 64)
    h = ("adt", "MultiplicativeHash", 0, {0: mult, 1: add})
    f = _fn(funcs, "multiplicative_hash::mix")
    fnames.append(f)
    res = ex.run(f, [("ref", [h]), v])
    obs += _panic_obligations(ex, "mix never panics", [], [f])
    for i, (pc, rv, env) in enumerate(res):
        obs.append(Obligation("mix(v) = (v*multiplier + addend) mod 2^64 [path %d]" % i, ex.decls, ex.range_asserts + pc,
                              "(= %s (mod (+ (* %s %s) %s) 18446744073709551616))" % (rv[1], v[1], mult[1], add[1]), [f]))
    models |= set(ex.models_used)
    inlined |= set(ex.inlined)

    # -- shard_ids (inlines map, mix, reduce, other_shard_id) -----------------------------------
    ex = _fresh_executor(funcs)
    m1 = ex.fresh_int("m1", 64)
    a1 = ex.fresh_int("a1", 64)
    m2 = ex.fresh_int("m2", 64)
    a2 = ex.fresh_int("a2", 64)
    h1 = ex.fresh_int("h1", 64)
    h2 = ex.fresh_int("h2", 64)
    ns = ex.fresh_int("num_shards", 64)
    prim = ("ref", [("adt", "MultiplicativeHash", 0, {0: m1, 1: a1})])
    sec = ("ref", [("adt", "MultiplicativeHash", 0, {0: m2, 1: a2})])
    # the two promoted constants of shard_ids: which one is PRIMARY is read from the dump itself
    consts = {}
    import re
    for m in re.finditer(r"const (sharded::<impl at [^>]*>::shard_ids::promoted\[(\d)\]): &MultiplicativeHash = \{(.*?)\n\}", text, re.S):
        which = "PRIMARY" if "PRIMARY_MIXER" in m.group(3) else ("SECONDARY" if "SECONDARY_MIXER" in m.group(3) else None)
        if which is None:
            raise mir.MirError("shard_ids promoted constant does not name a mixer")
        consts["sharded::Cache::shard_ids::promoted[%s]" % m.group(2)] = prim if which == "PRIMARY" else sec
    if len(consts) != 2:
        raise mir.MirError("expected two promoted mixer constants in shard_ids, found %d" % len(consts))
    ex.const_values = consts
    cache = ("adt", "sharded::Cache", 0, {0: ("opaque", "0", "loads"), 1: ("opaque", "0", "dir"), 2: ("opaque", "0", "trigger"),
                                          3: ns, 4: ("opaque", "0", "cap")})
    key = ("adt", "Key", 0, {0: ("opaque", "0", "name"), 1: h1, 2: h2})
    f = _fn(funcs, "sharded::shard_ids")
    fnames.append(f)
    res = ex.run(f, [("ref", [cache]), key])
    pre = ["(>= %s 2)" % ns[1]]
    obs += _panic_obligations(ex, "shard_ids never overflows", pre, [f])
    P = "(div (* %s (mod (+ (* %s %s) %s) 18446744073709551616)) 18446744073709551616)" % (ns[1], h1[1], m1[1], a1[1])
    S = "(div (* %s (mod (+ (* %s %s) %s) 18446744073709551616)) 18446744073709551616)" % (ns[1], h2[1], m2[1], a2[1])
    S2 = "(ite (not (= %s %s)) %s (ite (< (+ %s 1) %s) (+ %s 1) 0))" % (S, P, S, S, ns[1], S)
    for i, (pc, rv, env) in enumerate(res):
        base = ex.range_asserts + pre + pc
        obs.append(_witness("shard_ids path %d reachable" % i, ex, pre + pc, [f]))
        p, s = rv[1][0][1], rv[1][1][1]
        obs.append(Obligation("shard_ids = documented multiply-add-then-scale mapping with collision fix-up [path %d]" % i, ex.decls, base,
                              "(and (= %s %s) (= %s %s))" % (p, P, s, S2), [f],
                              note="mixers symbolic (any multiplier/addend): the constants are pinned by the Kani harness c12_constants",
                              native=("src/sharded.rs", native_shard_ids)))
        obs.append(Obligation("both shard indices are < n and distinct [path %d]" % i, ex.decls, base,
                              "(and (<= 0 %s) (< %s %s) (<= 0 %s) (< %s %s) (not (= %s %s)))" % (p, p, ns[1], s, s, ns[1], p, s), [f],
                              native=("src/sharded.rs", native_shard_ids)))
    models |= set(ex.models_used)
    inlined |= set(ex.inlined)
    return obs, dict(models=sorted(models), inlined=sorted(inlined | set(fnames)))


# ---------------------------------------------------------------------------------------------
def c10_trigger(funcs, text):
    obs = []
    # -- PeriodicTrigger::new: scale = ceil((2^64-1)/max(p,1)) --------------------------------------
    ex = _fresh_executor(funcs)
    p = ex.fresh_int("period", 64)
    f = _fn(funcs, "trigger::new")
    res = ex.run(f, [p])
    obs += _panic_obligations(ex, "PeriodicTrigger::new never panics", [], [f])
    P1 = "(ite (= %s 0) 1 %s)" % (p[1], p[1])
    CEIL = "(+ (div 18446744073709551615 %s) (ite (> (mod 18446744073709551615 %s) 0) 1 0))" % (P1, P1)
    scales = []
    for i, (pc, rv, env) in enumerate(res):
        sc = rv[3][0][1]
        scales.append((pc, sc))
        obs.append(Obligation("scale = ceil((2^64-1)/max(period,1)) [path %d]" % i, ex.decls, ex.range_asserts + pc,
                              "(= %s %s)" % (sc, CEIL), [f], native=("src/trigger.rs", native_trigger_new)))
        obs.append(Obligation("period*scale >= 2^64-1 and scale >= 1 [path %d]" % i, ex.decls, ex.range_asserts + pc,
                              "(and (>= (* %s %s) 18446744073709551615) (>= %s 1))" % (P1, sc, sc), [f],
                              note="the ceil (not floor) is what makes 'never more than period events' exact",
                              native=("src/trigger.rs", native_trigger_new)))
    models = set(ex.models_used)
    inlined = set(ex.inlined) | {f}

    # -- observe: one inductive step of the countdown ---------------------------------------------
    # ghost k = events since the last fire; invariant I: 1 <= c and c + k*scale <= 2^64-1
    g = _fn(funcs, "observe::{closure#0}")
    ex = _fresh_executor(funcs, models={
        r"RefCell::<u64>::borrow$": m_borrow, r"<Ref<'_, u64> as Deref>::deref$": m_deref,
        r"RefCell::<u64>::replace$": m_replace, r"^regenerate$|trigger::regenerate$": m_regenerate})
    period = ex.fresh_int("period", 64)
    scale = ex.fresh_int("scale", 64)
    c0 = ex.fresh_int("counter", 64)
    k = ex.fresh_int("k", 64)
    weight_cell = [scale]
    counter_cell = [c0]
    closure = ("adt", "closure", 0, {0: ("ref", weight_cell)})
    res = ex.run(g, [closure, ("ref", counter_cell)])
    obs += _panic_obligations(ex, "observe never overflows", [], [g])
    P1 = "(ite (= %s 0) 1 %s)" % (period[1], period[1])
    facts = ["(= %s (+ (div 18446744073709551615 %s) (ite (> (mod 18446744073709551615 %s) 0) 1 0)))" % (scale[1], P1, P1)]
    inv = "(and (>= %s 1) (<= (+ %s (* %s %s)) 18446744073709551615) (< %s %s))" % (c0[1], c0[1], k[1], scale[1], k[1], P1)
    uninit = "(and (= %s 0) (= %s 0))" % (c0[1], k[1])
    for i, (pc, rv, env) in enumerate(res):
        fired = rv[1]
        c1 = env["_2"][0][1][0][1]
        base = ex.range_asserts + facts + pc
        obs.append(_witness("observe path %d reachable" % i, ex, facts + pc + ["(or %s %s)" % (inv, uninit)], [g]))
        # initialised countdown
        obs.append(Obligation("inductive step (initialised): not fired => invariant with k+1, and k+1 < period [path %d]" % i,
                              ex.decls, base + [inv],
                              "(=> (not %s) (and (>= %s 1) (<= (+ %s (* (+ %s 1) %s)) 18446744073709551615) (< (+ %s 1) %s)))"
                              % (fired, c1, c1, k[1], scale[1], k[1], P1), [g],
                              note="hence at most period-1 consecutive events without maintenance, for every period at once"))
        obs.append(Obligation("inductive step (initialised): fired => countdown re-armed with a non-zero value [path %d]" % i,
                              ex.decls, base + [inv], "(=> %s (and (>= %s 1) (<= %s 18446744073709551615)))" % (fired, c1, c1), [g]))
        # first call on a thread
        obs.append(Obligation("first call on a thread: fired, or invariant with k = 1 (and 1 < period) [path %d]" % i,
                              ex.decls, base + [uninit],
                              "(or %s (and (>= %s 1) (<= (+ %s %s) 18446744073709551615) (< 1 %s)))" % (fired, c1, c1, scale[1], P1), [g]))
        obs.append(Obligation("period 0 or 1: every event fires [path %d]" % i, ex.decls,
                              base + ["(<= %s 1)" % period[1], "(or %s %s)" % (inv, uninit)], fired, [g]))
    models |= set(ex.models_used)
    inlined |= set(ex.inlined) | {g}

    # -- plain::Cache::new passes capacity / 3 ------------------------------------------------------
    h = _fn(funcs, "plain::new")
    ex = _fresh_executor(funcs, models={r"PathBuf::push": m_ignore_unit})
    cap = ex.fresh_int("capacity", 64)
    res = ex.run(h, [("opaque", "0", "PathBuf"), cap])
    obs += _panic_obligations(ex, "plain::Cache::new never panics", [], [h])
    C3 = "(div %s 3)" % cap[1]
    P1 = "(ite (= %s 0) 1 %s)" % (C3, C3)
    for i, (pc, rv, env) in enumerate(res):
        trig = rv[3][1]
        sc = trig[3][0][1]
        obs.append(Obligation("plain cache: trigger period = max(1, floor(capacity/3)) [path %d]" % i, ex.decls, ex.range_asserts + pc,
                              "(= %s (+ (div 18446744073709551615 %s) (ite (> (mod 18446744073709551615 %s) 0) 1 0)))" % (sc, P1, P1), [h]))
        obs.append(Obligation("plain cache: capacity field is the capacity passed in [path %d]" % i, ex.decls, ex.range_asserts + pc,
                              "(= %s %s)" % (rv[3][2][1], cap[1]), [h]))
    models |= set(ex.models_used)
    inlined |= set(ex.inlined) | {h}

    # -- composition: count <= capacity + max(1, capacity/3) after every write ------------------------
    # facts: (F1) fired => maintenance precedes the insertion  [Kani: KV-C10 in plain_set/put harnesses]
    #        (F2) after maintenance at most `capacity` files remain [C07]
    #        (F3) k < P at every write [inductive step above]
    decls = [("count", "Int"), ("k", "Int"), ("cap", "Int"), ("fired", "Bool"), ("count2", "Int"), ("k2", "Int"), ("ins", "Int")]
    Pc = "(ite (= (div cap 3) 0) 1 (div cap 3))"
    pre = ["(>= cap 0)", "(>= count 0)", "(>= k 0)", "(< k %s)" % Pc, "(<= count (+ cap 1 k))", "(or (= ins 0) (= ins 1))",
           "(ite fired (and (<= count2 (+ (ite (<= count cap) count cap) ins)) (= k2 0)) (and (= count2 (+ count ins)) (= k2 (+ k 1)) (< k2 %s)))" % Pc]
    obs.append(Obligation("composition: invariant count <= capacity + 1 + k is preserved by every write", decls, pre,
                          "(<= count2 (+ cap 1 k2))", [], note="1-induction over {count, k}; transition facts are the solver verdicts F1-F3"))
    obs.append(Obligation("composition: hence count <= capacity + max(1, floor(capacity/3)) after every write", decls,
                          ["(>= cap 0)", "(>= k2 0)", "(< k2 %s)" % Pc, "(<= count2 (+ cap 1 k2))"],
                          "(<= count2 (+ cap %s))" % Pc, []))
    return obs, dict(models=sorted(models), inlined=sorted(inlined))


# --- models of std calls used by observe ------------------------------------------------------
def m_borrow(ex, args, pc):
    return [([], ("adt", "Ref", 0, {0: args[0]}))]


def m_deref(ex, args, pc):
    guard = ex.project(args[0], ("deref",))
    return [([], guard[3][0])]


def m_replace(ex, args, pc):
    cellref, newv = args
    old = cellref[1][0]
    cellref[1][0] = newv
    return [([], old)]


def m_regenerate(ex, args, pc):
    r = ex.fresh_int("rnd", 64)
    args[0][1][0] = r
    return [(["(>= %s 1)" % r[1]], r)]


def m_ignore_unit(ex, args, pc):
    return [([], ("tuple", []))]


# ---------------------------------------------------------------------------------------------
def _ok_type(callee):
    """`<Result<T, E> as Try>::branch` -> T"""
    import re
    m = re.search(r"<Result<(.*), std::io::Error> as Try>::branch", callee)
    if not m:
        raise mir.MirError("unexpected Try::branch instance: " + callee)
    return m.group(1)


def m_try_branch(ex, args, pc):
    v = args[0]
    if v[0] == "adt" and v[1] == "Result":
        if v[2] == 0:
            return [([], ("adt", "ControlFlow", 0, {0: v[3][0]}))]
        return [([], ("adt", "ControlFlow", 1, {0: ("adt", "Result", 1, {0: v[3][0]})}))]
    # result of an uninterpreted call: both outcomes, with typed fresh payloads
    okty = _ok_type(ex.current_callee)
    isok = ex.fresh_bool("is_ok_" + v[1])
    payload = ex.fresh_of_type("ok_" + v[1], okty)
    errv = ("opaque", "err_" + v[1], "io::Error")
    ex.decls.append((errv[1], "Int"))
    ex.try_info[v[1]] = dict(is_ok=isok[1], payload=payload, err=errv)
    return [([isok[1]], ("adt", "ControlFlow", 0, {0: payload})),
            (["(not %s)" % isok[1]], ("adt", "ControlFlow", 1, {0: ("adt", "Result", 1, {0: errv})}))]


def m_from_residual(ex, args, pc):
    return [([], args[0])]


def m_deref_identity(ex, args, pc):
    return [([], args[0])]


def m_vec_len(ex, args, pc):
    vec = ex.project(args[0], ("deref",))
    if vec[0] != "opaque":
        raise mir.MirError("Vec::len of a non-opaque value")
    name = "len_" + vec[1]
    if name not in ex.vec_lens:
        ex.decls.append((name, "Int"))
        ex.range_asserts.append("(and (<= 0 %s) (<= %s 18446744073709551615))" % (name, name))
        ex.vec_lens[name] = True
    return [([], ("int", name, 64, False))]


def m_update_new(ex, args, pc):
    ev = ("opaque", "to_evict_%d" % next(ex.counter), "Vec<CachedFile>")
    mb = ("opaque", "to_move_back_%d" % next(ex.counter), "Vec<CachedFile>")
    ex.decls.append((ev[1], "Int"))
    ex.decls.append((mb[1], "Int"))
    ret = ("adt", "Update", 0, {0: ev, 1: mb})
    ex.calls_seen.append(("Update::new", args, list(pc), ret))
    return [([], ret)]


def c07_prune_glue(funcs, text):
    """raw_cache::prune = apply_update . Update::new . collect_cached_files, with the capacity and
    the directory passed through unchanged and the returned (estimate, evicted) computed from the
    listing count and the plan.  The three callees are left uninterpreted here (each is decided by
    its own Kani harnesses); only their proven contracts are assumed:
      collect_cached_files: count >= number of candidates          [KV-C07 in raw_collect_*]
      Update::new:          |to_evict| <= number of candidates     [KV-C08 'plan never larger than the input']"""
    f = _fn(funcs, "prune")
    ex = _fresh_executor(funcs, inline=lambda name: False, models={
        r"<PathBuf as Deref>::deref$": m_deref_identity,
        r"as Try>::branch$": m_try_branch,
        r"as FromResidual<.*>>::from_residual$": m_from_residual,
        r"Vec::<CachedFile>::len$": m_vec_len,
        r"Update::<CachedFile>::new": m_update_new,
    })
    ex.try_info = {}
    ex.vec_lens = {}
    dirv = ("opaque", "dir_arg", "PathBuf")
    ex.decls.append(("dir_arg", "Int"))
    cap = ex.fresh_int("capacity", 64)
    res = ex.run(f, [dirv, cap])
    obs = []
    calls = ex.calls_seen

    def calls_on(pc):
        return [c for c in calls if c[2] == pc[:len(c[2])]]

    def fail(msg):
        return Obligation(msg, ex.decls, [], "false", [f], note="structural mismatch found while reading the MIR")

    def ok(msg):
        return Obligation(msg, ex.decls, [], "true", [f], note="structural (value identity on the MIR data flow)")

    n_success = 0
    for i, (pc, rv, env) in enumerate(res):
        cs = calls_on(pc)
        names = [c[0].split("::<")[0].split("::")[-1] if c[0] != "Update::new" else "Update::new" for c in cs]
        if rv[0] == "adt" and rv[1] == "Result" and rv[2] == 0:
            n_success += 1
            # success path
            if names != ["collect_cached_files", "Update::new", "apply_update"]:
                obs.append(fail("prune calls collect_cached_files, Update::new, apply_update exactly once, in this order (saw %r)" % (names,)))
                continue
            col, upd, app = cs
            info = ex.try_info.get(col[3][1])
            obs.append(ok("prune calls collect_cached_files, Update::new, apply_update exactly once, in this order"))
            listing_ok = info is not None and upd[1][0] == info["payload"][1][0]
            obs.append(ok("the planner receives exactly the listing") if listing_ok else fail("the planner receives exactly the listing"))
            dir_ok = (col[1][0][0] == "ref" and col[1][0][1][0] == dirv) and app[1][0] == dirv
            obs.append(ok("listing and update act on the directory that was passed in") if dir_ok else fail("listing and update act on the directory that was passed in"))
            plan_ok = app[1][1] == upd[3]
            obs.append(ok("apply_update receives exactly the planner's plan") if plan_ok else fail("apply_update receives exactly the planner's plan"))
            capv = upd[1][1]
            obs.append(Obligation("the planner receives exactly the capacity that was passed in", ex.decls, ex.range_asserts + pc,
                                  "(= %s %s)" % (capv[1], cap[1]), [f]))
            if info is not None:
                count = info["payload"][1][1][1]
                evl = "len_" + upd[3][3][0][1]
                contracts = ["(>= %s len_listing)" % count, "(<= %s len_listing)" % evl]
                decls = ex.decls + [("len_listing", "Int")]
                est, nev = rv[3][0][1][0][1], rv[3][0][1][1][1]
                obs.append(Obligation("prune returns (count - evicted, evicted)", decls, ex.range_asserts + contracts + pc,
                                      "(and (= %s (- %s %s)) (= %s %s))" % (est, count, evl, nev, evl), [f]))
        elif rv[0] == "adt" and rv[1] == "Result" and rv[2] == 1:
            # error path: the callee's error is returned as is, nothing else is attempted after it
            last = cs[-1]
            src_ok = False
            if last[0] != "Update::new":
                info = ex.try_info.get(last[3][1])
                src_ok = info is not None and rv[3][0] == info["err"]
            obs.append(ok("an error of %s is returned to the caller unchanged" % names[-1]) if src_ok
                       else fail("an error of %s is returned to the caller unchanged" % names[-1]))
            if names[-1] == "collect_cached_files":
                obs.append(ok("nothing is deleted when the listing fails") if len(cs) == 1 else fail("nothing is deleted when the listing fails"))
    if n_success != 1:
        obs.append(fail("prune has exactly one success path (found %d)" % n_success))
    # internal assertion and arithmetic never fail under the callee contracts
    for j, (desc, pc, cond, where) in enumerate(ex.obligations):
        cs = calls_on(pc)
        extra = []
        decls = list(ex.decls)
        if cs and cs[0][0].endswith("collect_cached_files"):
            info = ex.try_info.get(cs[0][3][1])
            if info is not None:
                decls.append(("len_listing", "Int"))
                extra.append("(>= %s len_listing)" % info["payload"][1][1][1])
                for c in cs:
                    if c[0] == "Update::new":
                        extra.append("(<= len_%s len_listing)" % c[3][3][0][1])
        obs.append(Obligation("prune never panics: %s [#%d]" % (desc, j), decls, ex.range_asserts + extra + pc, cond, [f],
                              note="under the callee contracts quoted from the Kani harnesses"))
    return obs, dict(models=sorted(ex.models_used), inlined=[f])


def native_requeue_chain(scratch):
    """Native scenario for 'every reprieved entry is re-queued even when an earlier one vanished':
    r0 (read, oldest) is a dangling symlink - listed by the scan, gone (ENOENT) when re-stamped;
    r1 (read) must still move to the back of the queue; u (never read) is the victim."""
    import os, shutil, time
    from . import scenario
    nat = getattr(scratch, "_native", None) or scenario.Native(scratch)
    scratch._native = nat
    nat.build()
    bad = []
    outs = {}
    for profile in ("debug", "release"):
        root = nat.sandbox()
        try:
            d = os.path.join(root, "w")
            os.makedirs(d)
            os.symlink(os.path.join(root, "nowhere"), os.path.join(d, "r0"))
            os.utime(os.path.join(d, "r0"), ns=(2000 * 10**9, 1000 * 10**9), follow_symlinks=False)
            for name, mt, at in (("r1", 1001, 2000), ("u", 1002, 900)):
                pth = os.path.join(d, name)
                open(pth, "w").write(name)
                os.utime(pth, ns=(at * 10**9, mt * 10**9))
            t0 = time.time()
            r = nat.run(["prune", d, 2], profile=profile)
            st = os.lstat(os.path.join(d, "r1"))
            outs[profile] = r["out"]
            if not (st.st_mtime >= t0 - 5 and st.st_atime < st.st_mtime):
                bad.append("%s: r1 not re-queued (mtime=%d atime=%d)" % (profile, st.st_mtime, st.st_atime))
        finally:
            shutil.rmtree(root, ignore_errors=True)
    return dict(reproduced=len(bad) == 2, detail="; ".join(bad) or "r1 was re-queued natively", outputs=outs,
                signature=dict(op="prune", what="a reprieved entry is skipped after an earlier reprieved entry vanished"))


def native_requeue_absent(scratch):
    """Native scenario for 'a reprieved entry that vanished is skipped, not reported': r0 (read, oldest) is a
    dangling symbolic link - listed by the scan, ENOENT when re-stamped; prune must still succeed."""
    import os, shutil
    from . import scenario
    nat = getattr(scratch, "_native", None) or scenario.Native(scratch)
    scratch._native = nat
    nat.build()
    bad = []
    outs = {}
    for profile in ("debug", "release"):
        root = nat.sandbox()
        try:
            d = os.path.join(root, "w")
            os.makedirs(d)
            os.symlink(os.path.join(root, "nowhere"), os.path.join(d, "r0"))
            os.utime(os.path.join(d, "r0"), ns=(2000 * 10**9, 1000 * 10**9), follow_symlinks=False)
            for name, mt, at in (("u1", 1001, 900), ("u2", 1002, 900)):
                pth = os.path.join(d, name)
                open(pth, "w").write(name)
                os.utime(pth, ns=(at * 10**9, mt * 10**9))
            r = nat.run(["prune", d, 2], profile=profile)
            outs[profile] = r["out"]
            if "result ok" not in r["out"]:
                bad.append("%s: prune failed because a reprieved entry had vanished: %r" % (profile, r["out"][:2]))
        finally:
            shutil.rmtree(root, ignore_errors=True)
    return dict(reproduced=len(bad) == 2, detail="; ".join(bad) or "the vanished entry was skipped natively", outputs=outs,
                signature=dict(op="prune", what="a vanished reprieved entry surfaces as an error"))


def native_requeue_error(scratch):
    """Native scenario for 'a re-queue step that fails with anything but an absent-file error is reported':
    `loop` (read, oldest) is a symbolic link to itself - listed by the scan, ELOOP when re-stamped;
    u1, u2 were never read; capacity 2 makes u1 the victim and `loop` the reprieved entry.  prune must
    not report success while `loop` keeps its old queue position."""
    import os, shutil
    from . import scenario
    nat = getattr(scratch, "_native", None) or scenario.Native(scratch)
    scratch._native = nat
    nat.build()
    bad = []
    outs = {}
    for profile in ("debug", "release"):
        root = nat.sandbox()
        try:
            d = os.path.join(root, "w")
            os.makedirs(d)
            lp = os.path.join(d, "loop")
            os.symlink(lp, lp)
            os.utime(lp, ns=(2000 * 10**9, 1000 * 10**9), follow_symlinks=False)
            for name, mt, at in (("u1", 1001, 900), ("u2", 1002, 900)):
                pth = os.path.join(d, name)
                open(pth, "w").write(name)
                os.utime(pth, ns=(at * 10**9, mt * 10**9))
            r = nat.run(["prune", d, 2], profile=profile)
            outs[profile] = r["out"]
            st = os.lstat(lp)
            if "result ok" in r["out"] and int(st.st_mtime) == 1000:
                bad.append("%s: prune reported success although re-stamping `loop` failed (mtime still %d)" % (profile, st.st_mtime))
        finally:
            shutil.rmtree(root, ignore_errors=True)
    return dict(reproduced=len(bad) == 2, detail="; ".join(bad) or "the failure was reported natively", outputs=outs,
                signature=dict(op="prune", what="a failing re-queue step (not an absent file) is masked"))


# ---------------------------------------------------------------------------------------------
MAX_PLAN = 2  # entries per list (to_evict, to_move_back)


def c07_apply_glue(funcs, text):
    """raw_cache::apply_update performs exactly the plan: one ensure_file_removed per victim and one
    move_to_back_of_list per reprieved entry, each on the path <dir>/<that entry's name> (the shared
    path buffer is pushed and popped around every call on every continuing path), in plan order;
    absent-file errors of the re-queue step are skipped, every other error is returned unchanged.
    Callees are uninterpreted; lists of up to MAX_PLAN entries each (bounded unrolling of the two loops)."""
    f = _fn(funcs, "apply_update")
    log = []   # (kind, path components, entry id, pc)

    def m_into_iter(ex, args, pc):
        v = args[0]
        return [([], ("adt", "IntoIter", 0, {0: ("opaque", v[1], "list"), 1: ("int", "0", 64, False)}))]

    def m_next(ex, args, pc):
        it = ex.project(args[0], ("deref",))
        lst, pos = it[3][0][1], int(it[3][1][1])
        more = ex.fresh_bool("more_%s_%d" % (lst, pos))
        outs = [(["(not %s)" % more[1]], ("adt", "Option", 0, {}))]  # None: the list had exactly `pos` entries
        if pos < MAX_PLAN:
            ent = ("adt", "CachedFile", 0, {0: ("opaque", "%s_entry%d" % (lst, pos), "DirEntry"), 1: ("opaque", "0", "mtime"), 2: ("opaque", "0", "flag")})
            newit = ("adt", "IntoIter", 0, {0: it[3][0], 1: ("int", str(pos + 1), 64, False)})
            # iterator state lives behind the &mut: write it back
            ref = args[0]
            outs.append(([more[1]], ("adt", "Option", 1, {0: ent}), ref, newit))
        return outs

    def m_file_name(ex, args, pc):
        d = ex.project(args[0], ("deref",))
        return [([], ("opaque", "name_of_" + d[1], "OsString"))]

    def m_push(ex, args, pc):
        ref, name = args
        cur = ref[1][0]
        comps = list(cur[3][0][1]) if cur[0] == "adt" else []
        ref[1][0] = ("adt", "PathBuf", 0, {0: ("tuple", comps + [name])})
        return [([], ("tuple", []))]

    def m_pop(ex, args, pc):
        ref = args[0]
        cur = ref[1][0]
        comps = list(cur[3][0][1])
        ref[1][0] = ("adt", "PathBuf", 0, {0: ("tuple", comps[:-1])})
        return [([], ("bool", "true"))]

    def call_model(kind):
        def m(ex, args, pc):
            path = ex.project(args[0], ("deref",)) if args[0][0] == "ref" else args[0]
            comps = [c[1] for c in path[3][0][1]]
            n = next(ex.counter)
            okb = ex.fresh_bool("%s_ok" % kind)
            errv = ("opaque", "err_%s_%d" % (kind, n), "io::Error")
            log.append((kind, comps, list(pc), errv[1], okb[1]))
            return [([okb[1]], ("adt", "Result", 0, {0: ("tuple", [])})),
                    (["(not %s)" % okb[1]], ("adt", "Result", 1, {0: errv}))]
        return m

    absent_log = []   # (identity of the error asked about, pc at the call, answer literal)

    def m_is_absent(ex, args, pc):
        b = ex.fresh_bool("absent")
        try:
            e = ex.project(args[0], ("deref",)) if args[0][0] == "ref" else args[0]
            absent_log.append((e[1] if e[0] == "opaque" else None, list(pc), b[1]))
        except Exception:
            absent_log.append((None, list(pc), b[1]))
        return [([b[1]], ("bool", "true")), (["(not %s)" % b[1]], ("bool", "false"))]

    ex = _fresh_executor(funcs, inline=lambda name: False, models={
        r"<Vec<CachedFile> as IntoIterator>::into_iter$": m_into_iter,
        r"<std::vec::IntoIter<CachedFile> as Iterator>::next$": m_next,
        r"DirEntry::file_name$": m_file_name,
        r"PathBuf::push::<OsString>$": m_push,
        r"PathBuf::pop$": m_pop,
        r"<PathBuf as Deref>::deref$": m_deref_identity,
        r"^ensure_file_removed$": call_model("remove"),
        r"^move_to_back_of_list$": call_model("requeue"),
        r"^is_absent_file_error$": m_is_absent,
        r"as Try>::branch$": m_try_branch,
        r"as FromResidual<.*>>::from_residual$": m_from_residual,
    })
    ex.try_info = {}
    dirv = ("adt", "PathBuf", 0, {0: ("tuple", [("opaque", "DIR", "component")])})
    upd = ("adt", "Update", 0, {0: ("opaque", "evict", "Vec"), 1: ("opaque", "moveback", "Vec")})
    res = ex.run(f, [dirv, upd])
    obs = []

    def verdict(ok, msg):
        return Obligation(msg, [], [], "true" if ok else "false", [f], note="structural check on the executed MIR paths",
                          native_py=native_requeue_chain)

    n_ok = 0
    bad = []
    for (pc, rv, env) in res:
        mine = [c for c in log if c[2] == pc[:len(c[2])]]
        # expected: remove evict_entry0.., then requeue moveback_entry0.., each on [DIR, name_of_<entry>]
        ei = mi = 0
        for (kind, comps, _pc, errname, _okb) in mine:
            if kind == "remove":
                want = ["DIR", "name_of_evict_entry%d" % ei]
                ei += 1
                if mi != 0:
                    bad.append("a victim is removed after re-queueing started")
            else:
                want = ["DIR", "name_of_moveback_entry%d" % mi]
                mi += 1
            if comps != want:
                bad.append("call %s on path %r, expected %r" % (kind, comps, want))
        if rv[0] == "adt" and rv[1] == "Result" and rv[2] == 0:
            n_ok += 1
        elif rv[0] == "adt" and rv[1] == "Result" and rv[2] == 1:
            last = mine[-1] if mine else None
            if last is None or rv[3][0][1] != last[3]:
                bad.append("an error is returned that is not the failing step's own error")
    obs.append(verdict(not bad, "apply_update: every step acts on <dir>/<name of that plan entry>, victims first, in plan order; errors are returned unchanged"
                       + ("" if not bad else " -- " + "; ".join(sorted(set(bad))[:3]))))
    # no masking: a path that returns Ok contains no failed removal, and every failed re-queue step on it was
    # classified as an absent file by is_absent_file_error asked about *that* error
    masked = []
    for (pc, rv, env) in res:
        if not (rv[0] == "adt" and rv[1] == "Result" and rv[2] == 0):
            continue
        lits = set(pc)
        for c in [c for c in log if c[2] == pc[:len(c[2])]]:
            if "(not %s)" % c[4] not in lits:
                continue
            if c[0] == "remove":
                masked.append("success is returned after a failed removal")
                continue
            asked = [a for a in absent_log if a[1] == pc[:len(a[1])] and a[0] == c[3] and a[2] in lits]
            if not asked:
                masked.append("success is returned after a re-queue step failed with an error that is not an absent file")
    ob_mask = verdict(not masked, "C07+C18+C05: apply_update: success means every victim was removed and every reprieved entry re-queued or found absent; "
                      "any other failure of a step is returned" + ("" if not masked else " -- " + "; ".join(sorted(set(masked)))))
    ob_mask.native_py = native_requeue_error
    obs.append(ob_mask)
    # tolerance: an error that is_absent_file_error classified as an absent file is never what is returned
    surfaced = []
    for (pc, rv, env) in res:
        if rv[0] == "adt" and rv[1] == "Result" and rv[2] == 1:
            lits = set(pc)
            if any(a[0] == rv[3][0][1] and a[1] == pc[:len(a[1])] and a[2] in lits for a in absent_log):
                surfaced.append("an absent-file error of the re-queue step is returned to the caller")
    ob_tol = verdict(not surfaced, "C05+C07: apply_update: a reprieved entry that vanished since the scan is skipped, never reported as an error"
                     + ("" if not surfaced else " -- " + "; ".join(sorted(set(surfaced)))))
    ob_tol.native_py = native_requeue_absent
    obs.append(ob_tol)
    # completeness: for every pair of list lengths (a, b) <= MAX_PLAN there is an Ok path with exactly a removals and b re-queues
    shapes = set()
    for (pc, rv, env) in res:
        if rv[0] == "adt" and rv[1] == "Result" and rv[2] == 0:
            mine = [c for c in log if c[2] == pc[:len(c[2])]]
            shapes.add((sum(1 for c in mine if c[0] == "remove"), sum(1 for c in mine if c[0] == "requeue")))
    want = {(a, b) for a in range(MAX_PLAN + 1) for b in range(MAX_PLAN + 1)}
    obs.append(verdict(want <= shapes, "apply_update: on success every victim was removed and every reprieved entry re-queued (plans up to %d+%d entries)" % (MAX_PLAN, MAX_PLAN)))
    obs.append(Obligation("witness: apply_update paths explored", [], [], "false", [f], expect="sat", note="%d paths, %d successful" % (len(res), n_ok)))
    obs += _panic_obligations(ex, "apply_update never panics", [], [f])
    return obs, dict(models=sorted(ex.models_used), inlined=[f])


def native_planner(n, cap):
    def gen(model):
        ranks = [(_val(model, "rank%d" % i) or 0) for i in range(n)]
        flags = [_val(model, "acc%d" % i) in (True, "true") for i in range(n)]
        capv = cap if cap is not None else (_val(model, "capacity") or n)
        if n == 0:
            return None
        ents = ", ".join("W { id: %d, rank: %du64, accessed: %s }" % (i, ranks[i], "true" if flags[i] else "false") for i in range(n))
        return ("""    let es: [W; %d] = [%s];
    let cap: usize = %dusize;
    let u = Update::new(es, cap);
    check_plan::<W, %d>(&es, cap, &u);""" % (n, ents, capv, n))
    gen.prelude = 'include!(concat!(env!("CARGO_MANIFEST_DIR"), "/kv/planner_oracle.rs"));'
    return ("src/second_chance.rs", gen)


# ---------------------------------------------------------------------------------------------
def c08_planner(funcs, text, max_n=6):
    """second_chance::Update::new on the MIR, Vec operations modelled as finite sequences:
    for every n <= max_n, every capacity, every choice of access flags and every *sorted* vector of
    symbolic ranks (ties included), the plan satisfies the clock-queue specification (S0-S5 of
    harness/second_chance.rs).  The sort itself is std's (`sort_by_cached_key` is called on the
    collected vector with key = Entry::rank before the scan: checked structurally); an arbitrary
    input is its sorted permutation.  Kani's c08_* harnesses run the same function with the real
    sort on small n."""
    import re
    f = _fn(funcs, "second_chance::new")
    clo = _fn(funcs, "second_chance::new::{closure#0}")
    body = funcs[clo].blocks
    key_is_rank = any("<T as second_chance::Entry>::rank(copy _2)" in t for (_s, t) in body.values())
    obs = [Obligation("the planner sorts by Entry::rank (the sort key closure returns rank())", [], [], "true" if key_is_rank else "false", [clo],
                      note="structural")]
    total_paths = 0
    models_used = set()
    for n in range(0, max_n + 1):
        for cap in list(range(0, n + 1)) + [None]:
            sorted_calls = []

            def m_into_iter_input(ex, args, pc):
                return [([], args[0])]

            def m_collect(ex, args, pc):
                return [([], args[0])]

            def m_len(ex, args, pc):
                v = ex.project(args[0], ("deref",))
                return [([], ("int", str(len(v[1])), 64, False))]

            def m_new(ex, args, pc):
                return [([], ("tuple", []))]

            def m_deref_mut(ex, args, pc):
                return [([], args[0])]

            def m_sort(ex, args, pc):
                v = ex.project(args[0], ("deref",))
                sorted_calls.append([e[3][0][1] for e in v[1]])
                return [([], ("tuple", []))]

            def m_vec_into_iter(ex, args, pc):
                return [([], ("adt", "IntoIter", 0, {0: args[0], 1: ("int", "0", 64, False)}))]

            def m_next(ex, args, pc):
                it = ex.project(args[0], ("deref",))
                lst, pos = it[3][0][1], int(it[3][1][1])
                if pos >= len(lst):
                    return [([], ("adt", "Option", 0, {}))]
                newit = ("adt", "IntoIter", 0, {0: it[3][0], 1: ("int", str(pos + 1), 64, False)})
                args[0][1][0] = newit
                return [([], ("adt", "Option", 1, {0: lst[pos]}))]

            def m_accessed(ex, args, pc):
                e = ex.project(args[0], ("deref",))
                return [([], e[3][2])]

            def m_push(ex, args, pc):
                ref, e = args
                cur = ref[1][0]
                ref[1][0] = ("tuple", list(cur[1]) + [e])
                return [([], ("tuple", []))]

            def m_drain(ex, args, pc):
                ref, rng = args
                if mir.const_value(rng[3][0][1]) is None or mir.const_value(rng[3][1][1]) is None:
                    raise mir.NeedsConcrete()
                k0, k1 = int(rng[3][0][1]), int(rng[3][1][1])
                cur = list(ref[1][0][1])
                ref[1][0] = ("tuple", cur[:k0] + cur[k1:])
                return [([], ("tuple", cur[k0:k1]))]

            def m_extend(ex, args, pc):
                ref, dr = args
                ref[1][0] = ("tuple", list(ref[1][0][1]) + list(dr[1]))
                return [([], ("tuple", []))]

            ex = _fresh_executor(funcs, inline=lambda name: False, models={
                r"^<impl IntoIterator<Item = T> as IntoIterator>::into_iter$": m_into_iter_input,
                r"as Iterator>::collect::<Vec<T>>$": m_collect,
                r"^Vec::<T>::len$": m_len, r"^Vec::<T>::new$": m_new, r"^<Vec<T> as DerefMut>::deref_mut$": m_deref_mut,
                r"sort_by_cached_key::": m_sort, r"^<Vec<T> as IntoIterator>::into_iter$": m_vec_into_iter,
                r"^<std::vec::IntoIter<T> as Iterator>::next$": m_next, r"^<T as second_chance::Entry>::accessed$": m_accessed,
                r"^Vec::<T>::push$": m_push, r"^Vec::<T>::drain::<std::ops::Range<usize>>$": m_drain,
                r"^<Vec<T> as Extend<T>>::extend::<std::vec::Drain<'_, T>>$": m_extend,
            })
            ents = []
            assume = []
            for i in range(n):
                r = ex.fresh_int("rank%d" % i, 64)
                a = ex.fresh_bool("acc%d" % i)
                ents.append(("adt", "E", 0, {0: ("int", str(i), 64, False), 1: r, 2: a}))
                if i > 0:
                    assume.append("(<= %s %s)" % (ents[i - 1][3][1][1], r[1]))
            if cap is None:
                capv = ex.fresh_int("capacity", 64)
                assume.append("(>= %s %d)" % (capv[1], n))
            else:
                capv = ("int", str(cap), 64, False)
            res = ex.run(f, [("tuple", ents), capv])
            models_used |= ex.models_used
            total_paths += len(res)
            tag = "n=%d cap=%s" % (n, "any >= n" if cap is None else cap)
            for dpc in ex.dropped_paths:
                obs.append(Obligation("path set aside by the sequence model is infeasible (%s)" % tag, ex.decls, ex.range_asserts + assume, "(not (and true %s))" % " ".join(dpc), [f]))
            for (desc, pc, cond, where) in ex.obligations:
                obs.append(Obligation("planner never panics (%s): %s" % (tag, desc), ex.decls, ex.range_asserts + assume + pc, cond, [f]))
            m = 0 if cap is None else n - cap
            if m > 0 and not sorted_calls:
                obs.append(Obligation("the planner sorts before scanning (%s)" % tag, [], [], "false", [f], note="structural"))
            for (pc, rv, env) in res:
                ev = rv[3][0][1]
                mb = rv[3][1][1]
                rk = lambda e: e[3][1][1]
                ac = lambda e: e[3][2][1]
                ident = lambda e: int(e[3][0][1])
                goals = []
                ok_struct = True
                if len(ev) != m:
                    ok_struct = False
                if m == 0 and len(mb) != 0:
                    ok_struct = False
                ids = [ident(e) for e in ev + mb]
                if len(set(ids)) != len(ids) or any(i < 0 or i >= n for i in ids):
                    ok_struct = False
                if not ok_struct:
                    obs.append(Obligation("plan shape (%s): exactly max(0,n-capacity) distinct input entries evicted, nothing when n <= capacity" % tag,
                                          ex.decls, ex.range_asserts + assume + pc, "false", [f], native=native_planner(n, cap)))
                    continue
                if m == 0:
                    continue
                # S2: ev = U ++ T (un-accessed then accessed), mb accessed
                u = [e for e in ev if True]
                goals.append("(and %s)" % " ".join(["true"] + [ac(e) for e in mb]))
                # position k where accessed starts: for all i<j in ev: not(acc(ev_i) and not acc(ev_j))
                for i in range(len(ev)):
                    for j in range(i + 1, len(ev)):
                        goals.append("(not (and %s (not %s)))" % (ac(ev[i]), ac(ev[j])))
                # S3: within the un-accessed part and within (accessed part of ev ++ mb) ranks are non-decreasing
                for i in range(len(ev) - 1):
                    goals.append("(=> (= %s %s) (<= %s %s))" % (ac(ev[i]), ac(ev[i + 1]), rk(ev[i]), rk(ev[i + 1])))
                rq = ev + mb
                for i in range(len(rq)):
                    for j in range(i + 1, len(rq)):
                        goals.append("(=> (and %s %s) (<= %s %s))" % (ac(rq[i]), ac(rq[j]), rk(rq[i]), rk(rq[j])))
                scanned = set(ids)
                rest = [e for e in ents if ident(e) not in scanned]
                # S4 / S5
                second_pass = "(or %s)" % " ".join(["false"] + [ac(e) for e in ev])
                last_u = ev  # last un-accessed victim: the un-accessed victim of highest rank
                s4 = []
                for e in mb:
                    for v in ev:
                        s4.append("(=> (not %s) true)" % ac(v))
                # when no second pass happened: reprieved entries precede the last victim and unscanned entries follow it
                lastv = ev[-1]
                s4 = ["(<= %s %s)" % (rk(e), rk(lastv)) for e in mb] + ["(>= %s %s)" % (rk(e), rk(lastv)) for e in rest]
                s5 = ["true" if not rest else "false"] + ["(=> (not %s) %s)" % (ac(e), "false") for e in (mb + rest)]
                goals.append("(ite %s (and %s) (and %s))" % (second_pass, " ".join(s5), " ".join(["true"] + s4)))
                obs.append(Obligation("plan = classical clock queue (%s, path with %d victims / %d reprieved)" % (tag, len(ev), len(mb)),
                                      ex.decls, ex.range_asserts + assume + pc, "(and %s)" % " ".join(goals), [f], native=native_planner(n, cap)))
    obs.append(Obligation("witness: planner paths explored", [], [], "false", [f], expect="sat", note="%d paths over n <= %d" % (total_paths, max_n)))
    return obs, dict(models=sorted(models_used), inlined=[f, clo])


def _stack_gou_glue(funcs, text):
    from . import smt_stack
    return smt_stack.stack_gou_glue(funcs, text)


def _stack_finalize_glue(funcs, text):
    from . import smt_stack
    return smt_stack.stack_finalize_glue(funcs, text)


def _stack_ops_glue(funcs, text):
    from . import smt_stack
    return smt_stack.stack_ops_glue(funcs, text)


def _proto_glue(funcs, text):
    from . import smt_proto
    return smt_proto.proto_glue(funcs, text)


def _readonly_glue(funcs, text):
    from . import smt_stack
    return smt_stack.readonly_glue(funcs, text)


def _builder_glue(funcs, text):
    from . import smt_stack
    return smt_stack.builder_glue(funcs, text)


UNITS = {"builder_glue": _builder_glue, "readonly_glue": _readonly_glue, "proto_glue": _proto_glue, "stack_ops_glue": _stack_ops_glue, "stack_gou_glue": _stack_gou_glue, "stack_finalize_glue": _stack_finalize_glue, "c08_planner": c08_planner, "c07_apply_glue": c07_apply_glue, "c12_mapping": c12_mapping, "c10_trigger": c10_trigger, "c07_prune_glue": c07_prune_glue}
