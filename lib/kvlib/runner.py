"""Property check orchestration: run the units of a property, classify, replay, write evidence."""
import json
import os
import re
import sys
import threading
import time

from . import core, props, replay as replay_mod, smt
from .core import log

TOTAL_MEM_GB = int(os.environ.get("KV_MEM_GB", "54"))
MAX_JOBS = int(os.environ.get("KV_JOBS", "14"))


class Sched:
    """Run units in parallel under a memory budget (CBMC is single-threaded, memory-bound)."""

    def __init__(self):
        self.cv = threading.Condition()
        self.mem = 0
        self.jobs = 0

    def acquire(self, gb):
        with self.cv:
            while self.jobs >= MAX_JOBS or (self.jobs > 0 and self.mem + gb > TOTAL_MEM_GB):
                self.cv.wait()
            self.mem += gb
            self.jobs += 1

    def release(self, gb):
        with self.cv:
            self.mem -= gb
            self.jobs -= 1
            self.cv.notify_all()


def load_known():
    p = os.path.join(core.VERIF, "known_findings.json")
    if os.path.exists(p):
        return json.load(open(p))
    return {"findings": [], "fixed": []}


def classify(pid, unit, res):
    """-> dict(verdict=held|violated|inconclusive|sanity_ok, reasons=[...], candidates=[...])"""
    out = dict(verdict="held", reasons=[], candidates=[], other_props=[])
    if res.status == "timeout" or (res.status == "error" and "out of memory" in res.note):
        # the solver ran out of its time or memory allowance: nothing was decided for this unit.
        # Never a pass and never an alarm: reported as UNEXPLORED and left out of the claim.
        out["verdict"] = "unexplored"
        out["reasons"].append("%s: %s" % (res.status, res.note))
        return out
    if res.status in ("error", "timeout"):
        out["verdict"] = "inconclusive"
        out["reasons"].append("%s: %s" % (res.status, res.note))
        return out
    if unit.expect == "fail":
        if any("KV-SANITY" in d for (_n, d, _l) in res.failed):
            bad = [(n, d, l) for (n, d, l) in res.failed if "KV-SANITY" not in d]
            if bad:
                out["verdict"] = "inconclusive"
                out["reasons"].append("sanity twin has unexpected failures: %r" % (bad[:3],))
            else:
                out["verdict"] = "sanity_ok"
        else:
            out["verdict"] = "inconclusive"
            out["reasons"].append("vacuity witness not violated (end of harness unreachable?)")
        return out
    for (name, desc, loc) in res.failed:
        m = re.match(r"KV-((?:C\d+\+?)+)", desc)
        if m:
            if pid in m.group(1).split("+"):
                out["candidates"].append(dict(kind="assertion", desc=desc, loc=loc))
            else:
                out["other_props"].append(desc)
            continue
        if "unwinding assertion" in desc:
            if pid == "C06" and "12kismet_cache" in name and "kv_" not in name:
                out["candidates"].append(dict(kind="unbounded-loop", desc=desc, loc=loc))
            else:
                out["verdict"] = "inconclusive"
                out["reasons"].append("unwinding bound too small: %s @ %s" % (name, loc[:160]))
            continue
        if any(s in desc for s in unit.panic_ok):
            continue
        if unit.panic_ok and ("unwrap_failed" in name or "expect_failed" in name) and "placeholder message" in desc:
            # the documented failed-flush panic of set/put (`.expect("auto_sync failed, ...")` in
            # maybe_sync_path); Kani cannot render messages formatted at run time.  Only units that
            # inject a failing flush carry panic_ok.
            out.setdefault("documented_panics", []).append(name)
            continue
        if loc.startswith("src/"):
            out["candidates"].append(dict(kind="crate-failure", desc=desc, loc=loc))
            continue
        out["verdict"] = "inconclusive"
        out["reasons"].append("unclassified failed check %s: %s @ %s" % (name, desc, loc[:200]))
    if res.undetermined and not out["candidates"]:
        # checks left undetermined by an earlier failure (e.g. unwinding): not a pass
        if out["verdict"] == "held" and res.status != "success":
            und = [d for (_n, d, _l) in res.undetermined if re.match(r"KV-(?:C\d+\+)*%s\b" % pid, d)]
            if und and not out["other_props"]:
                out["verdict"] = "inconclusive"
                out["reasons"].append("%d checks undetermined" % len(res.undetermined))
    if out["candidates"]:
        if out["verdict"] != "inconclusive":
            out["verdict"] = "violated"
        else:
            # both a candidate and an inconclusive part: keep the candidate, note the rest
            out["verdict"] = "violated"
    if out["verdict"] == "held":
        if res.status == "failed" and not out["other_props"] and not unit.panic_ok:
            out["verdict"] = "inconclusive"
            out["reasons"].append("verification failed without classified failure")
        bad_covers = [(d, s) for (d, s, _l) in res.covers if s != "SATISFIED"]
        if getattr(unit, "covers", "all") == "any" and len(bad_covers) < len(res.covers):
            # one body serves several shapes (stack harnesses): the witnesses that belong to other
            # shapes cannot fire; at least one witness placed after the operation must.
            bad_covers = []
        # covers may legitimately be cut short by an *other* property's failure
        if bad_covers and not out["other_props"]:
            out["verdict"] = "inconclusive"
            out["reasons"].append("vacuous: covers not satisfied: %r" % (bad_covers[:4],))
    return out


def run_property(pid, tier, only=None, keep=False, seed=0):
    t0 = time.time()
    spec = props.PROPS[pid]
    units = [u for u in spec["units"] if tier in u.tiers]
    if only:
        units = [u for u in units if re.search(only, u.name)]
    kunits = [u for u in units if u.kind == "kani"]
    munits = [u for u in units if u.kind == "smt"]
    groups = sorted(set(u.group for u in kunits))
    records = []
    scratch = None
    build_problem = None
    try:
        if kunits or munits:
            scratch = core.Scratch(groups, keep=keep)
        if kunits:
            log("building scratch crate with harness groups", groups, "in", scratch.dir)
            tb = time.time()
            ok, blog = core.build(scratch, [(u.group, u.name) for u in kunits])
            log("build %s in %.0fs" % ("ok" if ok else "FAILED", time.time() - tb))
            if not ok:
                build_problem = blog[-3000:]
        results = {}
        if kunits and not build_problem:
            sched = Sched()

            def work(u):
                # experiments: KV_MEM_OVERRIDE="unit=GB,unit=GB"
                for kv in os.environ.get("KV_MEM_OVERRIDE", "").split(","):
                    if "=" in kv and kv.split("=")[0] == u.name:
                        u.mem_gb = int(kv.split("=")[1])
                sched.acquire(u.mem_gb)
                try:
                    log("run", u.name)
                    r = core.run_kani(scratch, u.name, group=u.group, timeout=u.timeout, mem_gb=u.mem_gb,
                                      unwind_rules=u.rules, extra_args=core.lean_args(u))
                    log("done %s: %s in %.0fs (solver %.0fs) failed=%d" % (
                        u.name, r.status, r.wall_s, r.solver_s, len(r.failed)))
                    results[u.name] = r
                finally:
                    sched.release(u.mem_gb)

            # heaviest first
            order = sorted(kunits, key=lambda u: -u.timeout)
            threads = [threading.Thread(target=work, args=(u,)) for u in order]
            for t in threads:
                t.start()
            for t in threads:
                t.join()
        for u in kunits:
            if build_problem:
                records.append(dict(unit=u, res=None, cls=dict(
                    verdict="inconclusive", reasons=["scratch crate did not compile with the harness: " + build_problem[-1500:]],
                    candidates=[], other_props=[])))
                continue
            r = results[u.name]
            records.append(dict(unit=u, res=r, cls=classify(pid, u, r)))
        for u in munits:
            mr = smt.run_unit(u, scratch, pid)
            records.append(dict(unit=u, res=mr, cls=mr.cls))

        # replay candidates against the real code before reporting
        known = load_known()
        violations = []
        known_hits = []
        inconclusive = []
        unexplored = []
        for rec in records:
            cls = rec["cls"]
            if cls["verdict"] == "unexplored":
                unexplored.append((rec["unit"].name, cls["reasons"]))
            if cls["verdict"] == "inconclusive":
                inconclusive.append((rec["unit"].name, cls["reasons"]))
            if cls["verdict"] == "violated":
                rp = replay_mod.replay_candidate(pid, rec, scratch, tier)
                rec["replay"] = rp
                if rp["reproduced"]:
                    k = replay_mod.match_known(known, pid, rp)
                    if k:
                        known_hits.append((k, rp))
                    else:
                        violations.append(rp)
                else:
                    inconclusive.append((rec["unit"].name, ["counterexample did not reproduce natively: " + rp.get("detail", "")]))
    finally:
        if scratch:
            scratch.cleanup()
    wall = time.time() - t0
    decided = [r for r in records if r["cls"]["verdict"] in ("held", "sanity_ok", "violated")]
    if unexplored and not decided:
        inconclusive.extend(unexplored)
    ev = write_evidence(pid, tier, seed, spec, records, violations, known_hits, inconclusive, wall, unexplored)
    for (k, rp) in known_hits:
        print("KNOWN-FINDING: property=%s %s" % (pid, k["what"]))
    for rp in violations:
        print("VIOLATION property=%s replay=%s" % (pid, rp["path"]))
    for name, reasons in unexplored:
        print("UNEXPLORED property=%s unit=%s (left out of the claim): %s" % (pid, name, "; ".join(reasons)[:300]))
    for name, reasons in inconclusive:
        print("INCONCLUSIVE property=%s unit=%s: %s" % (pid, name, "; ".join(reasons)[:1500]))
    if violations:
        return 1
    if inconclusive:
        return 2
    print("HELD property=%s tier=%s units=%d decided=%d wall=%.0fs" % (pid, tier, len(records), len(decided), wall))
    return 0


def write_evidence(pid, tier, seed, spec, records, violations, known_hits, inconclusive, wall, unexplored=()):
    samples = []
    all_stubs = set()
    evaluations = 0
    nontrivial = 0
    states = 0
    transitions = 0
    validated = 0
    solver_s = 0.0
    functions = set()
    queries = 0
    for rec in records:
        u, r, cls = rec["unit"], rec["res"], rec["cls"]
        functions.update(u.functions)
        if u.kind == "kani":
            s = dict(engine="kani/cbmc", harness=u.name, bounds=u.bounds, functions=u.functions,
                     verdict=cls["verdict"], notes=u.notes)
            if r is not None:
                tagged = [c for c in r.checks if re.match(r"KV-(?:C\d+\+)*%s\b" % pid, c[2])]
                ok_tagged = [c for c in tagged if c[1] == "SUCCESS"]
                s.update(status=r.status, checks_total=r.total, checks_failed=len(r.failed),
                         property_assertions=len(tagged), property_assertions_proved=len(ok_tagged),
                         property_assertions_unreachable=len([c for c in tagged if c[1] == "UNREACHABLE"]),
                         covers=[dict(desc=d, status=st) for (d, st, _l) in r.covers],
                         vccs_generated=r.vccs[0], vccs_remaining=r.vccs[1],
                         solver_s=round(r.solver_s, 2), symex_s=round(r.symex_s, 2), wall_s=round(r.wall_s, 1),
                         unwind_rules=[list(x) for x in (u.rules or [])], stubs_applied=len(r.stubs))
                all_stubs.update(r.stubs)
                evaluations += r.total
                states += r.steps
                transitions += r.vccs[0]
                queries += 1
                solver_s += r.solver_s
                if r.status in ("success", "failed"):
                    # distinct = (harness, assertion text) pairs; non-trivial = tagged with this property,
                    # reachable and proved; a vacuity witness that came back violated counts once
                    if u.expect == "fail":
                        nontrivial += 1 if cls["verdict"] == "sanity_ok" else 0
                    else:
                        nontrivial += len(set(c[2] for c in ok_tagged))
            if cls["reasons"]:
                s["reasons"] = cls["reasons"]
            if cls.get("other_props"):
                s["failed_assertions_of_other_properties"] = sorted(set(cls["other_props"]))[:10]
            if "replay" in rec:
                s["replay"] = {k: v for k, v in rec["replay"].items() if k != "log"}
                validated += 1
            samples.append(s)
        else:
            s = r.evidence()
            if "replay" in rec:
                s["replay"] = {k: v for k, v in rec["replay"].items() if k != "log"}
                validated += 1
            states += r.blocks
            transitions += r.edges
            evaluations += r.n_queries
            queries += r.n_queries
            solver_s += r.solver_s
            nontrivial += r.n_unsat
            samples.append(s)
    ev = dict(
        property_id=pid, tier=tier, seed=seed, level=spec.get("level", "model_checking"),
        coverage=dict(
            evaluations=evaluations,
            distinct_nontrivial=nontrivial,
            states=max(states, 1),
            transitions=max(transitions, 1),
            traces_validated_against_impl=validated,
            states_rule=("states = symbolic program points of the unwound programs handed to the solver (CBMC's 'size of program expression', "
                         "summed over the harnesses that reached it) + MIR basic blocks executed symbolically by engine M; transitions = verification "
                         "conditions generated by CBMC + successor edges followed by engine M; traces_validated_against_impl = solver counterexamples "
                         "replayed against the real library in this run (0 when the solver found none)"),
            rule=("evaluations = verification conditions (CBMC properties + SMT queries) decided by the solver in this run; "
                  "distinct_nontrivial = distinct (harness, assertion) pairs whose assertion is tagged with this property, was reachable and "
                  "was proved by the solver, plus SMT obligations proved (unsat on both solvers), plus vacuity witnesses that came back violated"),
            samples=samples,
            solver_queries=queries,
            solver_time_s=round(solver_s, 2),
            functions_encoded=sorted(functions),
            stubs_and_models=sorted(all_stubs),
            outside_the_claim=spec.get("outside", []),
            exhaustive=False,
            explanation="bounded, solver-decided: every verdict is UNSAT within the stated bounds or a replayed model",
        ),
        assumptions=spec.get("assumptions", []),
        wall_s=round(wall, 1),
        violations=len(violations),
        known_findings=[k["what"] for (k, _rp) in known_hits],
        inconclusive=[dict(unit=n, reasons=r) for (n, r) in inconclusive],
        unexplored=[dict(unit=n, reasons=r) for (n, r) in unexplored],
    )
    evdir = os.environ.get("KV_EVIDENCE_DIR") or os.path.join(core.VERIF, "evidence")   # (seed evaluations write elsewhere)
    os.makedirs(evdir, exist_ok=True)
    with open(os.path.join(evdir, pid + ".json"), "w") as f:
        json.dump(ev, f, indent=1)
    return ev
