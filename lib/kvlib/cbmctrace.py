"""Decode the CBMC counterexample trace printed by `cargo kani --output-format old --cbmc-args --trace`:
reconstructs the values of KFS's global state (static K in harness/kfs.rs) at two instants —
when the operation under test began (K.op_begun := true) and at the failing assertion."""
import re

STATE_RE = re.compile(r"^State \d+ ")


def _parse_value(s, i=0):
    """Parse a CBMC value starting at s[i]; returns (python value, next index)."""
    while i < len(s) and s[i] == " ":
        i += 1
    if s[i] == "{":
        i += 1
        items = []
        named = {}
        while True:
            while i < len(s) and s[i] in " ,":
                i += 1
            if s[i] == "}":
                i += 1
                break
            m = re.match(r"\.([\w$]+)=", s[i:])
            if m:
                v, i = _parse_value(s, i + m.end())
                named[m.group(1)] = v
            else:
                v, i = _parse_value(s, i)
                items.append(v)
        return (named if named else items), i
    m = re.match(r"(TRUE|FALSE|-?\d+)(?:[ul]*)", s[i:])
    if m:
        t = m.group(1)
        v = True if t == "TRUE" else False if t == "FALSE" else int(t)
        return v, i + m.end()
    # anything else (pointers, floats, strings): skip to the next delimiter
    j = i
    depth = 0
    while j < len(s) and not (depth == 0 and s[j] in ",}"):
        if s[j] in "({":
            depth += 1
        elif s[j] in ")}":
            depth -= 1
        j += 1
    return s[i:j].strip(), j


def _assign(state, path, value):
    """path: list of keys/indices; containers are created on demand (list for int keys)."""
    cur = state
    for pos, k in enumerate(path[:-1]):
        nxt = [] if isinstance(path[pos + 1], int) else {}
        if isinstance(k, int):
            while len(cur) <= k:
                cur.append(None)
            if not isinstance(cur[k], (dict, list)):
                cur[k] = nxt
            cur = cur[k]
        else:
            if k not in cur or not isinstance(cur[k], (dict, list)):
                cur[k] = nxt
            cur = cur[k]
    k = path[-1]
    if isinstance(k, int):
        while len(cur) <= k:
            cur.append(None)
        cur[k] = _merge(cur[k], value)
    else:
        cur[k] = _merge(cur.get(k), value)


def _merge(old, new):
    if isinstance(new, dict) and isinstance(old, dict):
        out = dict(old)
        for k, v in new.items():
            out[k] = _merge(old.get(k), v)
        return out
    return new


def _split_lhs(lhs):
    """'K.ino[3ul].mode' -> ['ino', 3, 'mode'] (the leading symbol is dropped by the caller)"""
    out = []
    for m in re.finditer(r"\.([\w$]+)|\[(\d+)[ul]*\]", lhs):
        if m.group(1) is not None:
            out.append(m.group(1))
        else:
            out.append(int(m.group(2)))
    return out


def section_for(text, needle):
    """The 'Trace for <property>:' section whose failing assertion description contains needle."""
    secs = [(m.start(), m.group(1)) for m in re.finditer(r"^Trace for (.*):$", text, re.M)]
    secs.append((len(text), None))
    best = None
    for (a, name), (b, _n) in zip(secs, secs[1:]):
        body = text[a:b]
        if "Violated property:" in body:
            tail = body[body.rindex("Violated property:"):]
            if needle in tail:
                best = body
                break
    return best


def decode(text, needle, symbol_suffix="kv_kfs1K"):
    """-> dict(pre=state at op start or None, post=state at the violation) for the KFS global."""
    body = section_for(text, needle)
    if body is None:
        return None
    state = {}
    pre = None
    arrays = {}
    import copy
    lines = body.splitlines()
    i = 0
    while i < len(lines):
        ln = lines[i]
        m = re.match(r"^  ([^\s=]+)=(.*)$", ln)
        if m:
            lhs, rhs = m.group(1), m.group(2)
            base = lhs.split(".", 1)[0].split("[", 1)[0]
            if base.endswith(symbol_suffix):
                rest = lhs[len(base):]
                # strip the trailing bit pattern " (0101...)"
                rhs = re.sub(r"\s+\([01 ]+\)\s*$", "", rhs)
                try:
                    val, _ = _parse_value(rhs, 0)
                except Exception:
                    val = None
                path = _split_lhs(rest)
                if not path:
                    if isinstance(val, dict):
                        state = _merge(state, val)
                elif val is not None:
                    _assign(state, path, val)
                if path == ["op_begun"] and val is True and pre is None:
                    pre = copy.deepcopy(state)
        i += 1
    return dict(pre=pre, post=state)
