"""Engine M on the stacked cache's glue code: stack::Cache::get_or_update (with its nested
`promote` and closures inlined) and stack::finalize_tempfile, executed symbolically on the MIR.

Every callee outside those bodies is uninterpreted: a call returns *either* outcome its type
allows (Ok/Err, Some/None, each judge answer, true/false), each outcome being a fresh boolean
that extends the path condition, and fresh identities for the values it yields.  A path through
the function is therefore one choice of outcomes for every call it makes - every combination of
hit/miss at each level, judge answer, populate outcome, checker verdict and *failure of any single
or several calls*.  Rules are predicates over the sequence of calls (with the identities of the
values passed) and the value returned; an obligation states that no path violating the rule has a
satisfiable path condition.
"""
import os
import re

from . import mir
from .smt import Obligation
from . import smt_props as sp

NORMALISE = re.compile(r"\b(?:[a-z_0-9]+::)+(?=[A-Z])")


def norm_ty(t):
    return NORMALISE.sub("", (t or "").strip())


def split_generic(ty, head):
    inner = ty[len(head) + 1:-1]
    return [x.strip() for x in mir.split_top(inner, ",")]


KINDS = [
    ("W_GET", r"<dyn FullCache as FullCache>::get$"),
    ("W_PUT", r"<dyn FullCache as FullCache>::put$"),
    ("W_SET", r"<dyn FullCache as FullCache>::set$"),
    ("W_TOUCH", r"<dyn FullCache as FullCache>::touch$"),
    ("W_TEMPDIR", r"<dyn FullCache as FullCache>::temp_dir$"),
    ("L_GET", r"<dyn ReadSide as ReadSide>::get$"),
    ("L_TOUCH", r"<dyn ReadSide as ReadSide>::touch$"),
    ("R_GET", r"ReadOnlyCache::get(::<.*>)?$"),
    ("R_TOUCH", r"ReadOnlyCache::touch(::<.*>)?$"),
    ("SYNCPATH", r"stack::Cache::maybe_sync_path$"),
    ("ERRNEW", r"io::Error::new(::<.*>)?$"),
    ("JUDGE", r"FnOnce\(CacheHit.*call_once$"),
    ("POPULATE", r"FnOnce\(&mut File, Option<File>\).*call_once$"),
    ("CHECK", r"Fn\(&'a mut File, &'b mut File\).*as Fn<.*>>::call$"),
    ("SEEK", r"<File as Seek>::seek$"),
    ("NEWTEMP", r"NamedTempFile::new_in(::<.*>)?$"),
    ("TEMPFILE_IN", r"^(tempfile::)?tempfile_in(::<.*>)?$"),
    ("TEMPFILE", r"^(tempfile::)?tempfile$"),
    ("FINALIZE", r"finalize_tempfile$"),
    ("OPEN", r"File::open(::<.*>)?$"),
    ("COPY", r"io::copy(::<.*>)?$"),
    ("ERRKIND", r"io::Error::kind$"),
    ("KINDEQ", r"<ErrorKind as PartialEq>::eq$"),
    ("SET_PERM", r"File::set_permissions$"),
    ("SYNC", r"File::sync_all$"),
    ("CLOSE", r"finalize_tempfile::close$"),
    ("INTO_PARTS", r"NamedTempFile::into_parts$"),
    ("AS_FILE", r"NamedTempFile::as_file(_mut)?$"),
]
PURE = [r"<TempPath as Deref>::deref$", r"as Deref>::deref$", r"as Into<.*>>::into$", r"Permissions as PermissionsExt>::from_mode$",
        r"<impl Into<Key<'a>> as Into<Key<'_>>>::into$"]


def kind_of(callee):
    key = mir.normalise_callee(callee)
    for k, pat in KINDS:
        if re.search(pat, key):
            return k
    return "OTHER"


class Run:
    """One symbolic execution of a function under a configuration."""
    seq = 0

    def __init__(self, funcs, inline, extra_models=None):
        self.log = []
        self.drops = []
        self.panics = []
        self.ex = mir.Executor(funcs, inline=inline, models=dict({
            r"as Try>::branch$": sp.m_try_branch,
            r"as FromResidual<.*>>::from_residual$": sp.m_from_residual,
            r"^Option::<.*>::as_ref$": self.m_opt_as_ref,
            r"^Option::<.*>::map::<.*as_ref\}>$": self.m_identity,
            r"^Option::<.*>::is_some$": self.m_is_some,
            r"^Option::<.*>::and_then::<": self.m_and_then,
            r"^Option::<Result<.*>>::transpose$": self.m_opt_transpose,
            r"^Result::<Option<.*>::transpose$": self.m_res_transpose,
            r"^<\{closure@.*\} as Fn<\(\)>>::call$": self.m_call_closure0,
            r"<TempPath as Deref>::deref$": self.m_identity,
            r"as Deref>::deref$": self.m_identity,
            r"as Into<.*>>::into$": self.m_identity,
            r"NamedTempFile::as_file(_mut)?$": self.m_as_file,
            r"^Result::<.*>::expect$": self.m_expect,
            r"^Option::<.*>::expect$": self.m_expect_opt,
            r"^Result::<.*>::is_ok$": self.m_is_ok,
        }, **(extra_models or {})))
        self.ex.try_info = {}
        # names of fresh symbols must not collide between runs whose declarations end up in one obligation
        Run.seq += 1
        import itertools
        self.ex.counter = itertools.count(Run.seq * 100000)
        self.ex.max_steps = 600000
        self.ex.max_depth = 8
        self.ex.default_model = self.default_model
        self.ex.opaque_fields = True
        self.ex.on_drop = self.on_drop
        self.funcs = funcs

    # ---- value identities -------------------------------------------------------------------
    def ident(self, v, depth=0):
        if v is None or depth > 6:
            return None
        k = v[0]
        if k == "ref":
            try:
                return self.ident(self.ex.project(v, ("deref",)), depth + 1)
            except Exception:
                return ("ref?",)
        if k == "opaque":
            return v[1]
        if k == "adt":
            return (v[1].split("::")[-1], v[2], tuple(self.ident(x, depth + 1) for _i, x in sorted(v[3].items(), key=lambda t: str(t[0]))))
        if k == "tuple":
            return tuple(self.ident(x, depth + 1) for x in v[1])
        if k in ("bool", "int"):
            return v[1]
        return None

    # ---- models -------------------------------------------------------------------------------
    def m_identity(self, ex, args, pc):
        return [([], args[0])]

    def m_expect(self, ex, args, pc):
        v = args[0]
        if v[0] != "adt":
            raise mir.MirError("expect on a non-adt")
        if v[2] == 1:
            self.panics.append(dict(pc=ex.abs_pc(pc), what="expect on Err"))
            return []   # diverges (panic)
        return [([], v[3][0])]

    def m_expect_opt(self, ex, args, pc):
        v = args[0]
        if v[0] != "adt":
            raise mir.MirError("expect on a non-adt")
        if v[2] == 0:
            self.panics.append(dict(pc=ex.abs_pc(pc), what="expect on None"))
            return []
        return [([], v[3][0])]

    def m_is_ok(self, ex, args, pc):
        v = ex.project(args[0], ("deref",)) if args[0][0] == "ref" else args[0]
        if v[0] != "adt":
            raise mir.MirError("is_ok of a non-adt")
        return [([], ("bool", "true" if v[2] == 0 else "false"))]

    def m_as_file(self, ex, args, pc):
        # the File inside a NamedTempFile: identity derived from the temp file's
        t = ex.project(args[0], ("deref",)) if args[0][0] == "ref" else args[0]
        name = t[1] if t[0] == "opaque" else "tmp?"
        return [([], ("ref", [("opaque", "file_of_" + name, "File")]))]

    def m_opt_as_ref(self, ex, args, pc):
        v = ex.project(args[0], ("deref",)) if args[0][0] == "ref" else args[0]
        if v[0] != "adt":
            raise mir.MirError("Option::as_ref of a non-adt")
        return [([], v)]

    def m_is_some(self, ex, args, pc):
        v = ex.project(args[0], ("deref",)) if args[0][0] == "ref" else args[0]
        if v[0] != "adt":
            raise mir.MirError("Option::is_some of a non-adt")
        return [([], ("bool", "true" if v[2] == 1 else "false"))]

    def m_opt_transpose(self, ex, args, pc):
        v = args[0]
        if v[0] != "adt":
            raise mir.MirError("transpose of a non-adt")
        if v[2] == 0:
            return [([], ("adt", "Result", 0, {0: ("adt", "Option", 0, {})}))]
        inner = v[3][0]
        if inner[2] == 0:
            return [([], ("adt", "Result", 0, {0: ("adt", "Option", 1, {0: inner[3][0]})}))]
        return [([], ("adt", "Result", 1, {0: inner[3][0]}))]

    def m_res_transpose(self, ex, args, pc):
        v = args[0]
        if v[0] != "adt":
            raise mir.MirError("transpose of a non-adt")
        if v[2] == 1:
            return [([], ("adt", "Option", 1, {0: ("adt", "Result", 1, {0: v[3][0]})}))]
        inner = v[3][0]
        if inner[2] == 0:
            return [([], ("adt", "Option", 0, {}))]
        return [([], ("adt", "Option", 1, {0: ("adt", "Result", 0, {0: inner[3][0]})}))]

    def closure_fn(self, n):
        hits = [k for k in self.funcs if k.endswith("get_or_update::{closure#%d}" % n)]
        if len(hits) != 1:
            raise mir.MirError("closure #%d of get_or_update not found" % n)
        return hits[0]

    def m_and_then(self, ex, args, pc):
        opt, clo = args
        if opt[0] != "adt":
            raise mir.MirError("and_then on a non-adt")
        if opt[2] == 0:
            return [([], ("adt", "Option", 0, {}))]
        ex.pc_stack.append(list(pc))
        try:
            res = ex.run(self.closure_fn(1), [clo, opt[3][0]], 1)
        finally:
            ex.pc_stack.pop()
        return [(rpc, rv) for (rpc, rv, _e) in res]

    def m_call_closure0(self, ex, args, pc):
        ex.pc_stack.append(list(pc))
        try:
            res = ex.run(self.closure_fn(0), [args[0]], 1)
        finally:
            ex.pc_stack.pop()
        return [(rpc, rv) for (rpc, rv, _e) in res]

    def on_drop(self, f, place, val, pc):
        self.drops.append(dict(pc=self.ex.abs_pc(pc), id=self.ident(val), ty=norm_ty(f.locals.get(place, "")), fn=f.name))

    def default_model(self, ex, callee, args, pc, dst_ty):
        key = mir.normalise_callee(callee)
        n = next(ex.counter)
        tag = "c%d" % n
        ty = norm_ty(dst_ty)
        ev = dict(n=n, kind=kind_of(callee), callee=key, args=[self.ident(a) for a in args], pc=ex.abs_pc(pc), outs=[])
        self.log.append(ev)

        def out(lits, val, label, ids=None):
            ev["outs"].append(dict(lits=list(lits), label=label, id=ids if ids is not None else self.ident(val)))
            return (list(lits), val)

        if ty.startswith("Result<"):
            okty, _e = split_generic(ty, "Result")
            b = ex.fresh_bool("ok_" + tag)
            errv = ("opaque", "err_" + tag, "io::Error")
            ex.decls.append((errv[1], "Int"))
            outs = []
            if okty.startswith("Option<"):
                (inner,) = split_generic(okty, "Option")
                sb = ex.fresh_bool("some_" + tag)
                v = ex.fresh_of_type("val_" + tag, inner)
                outs.append(out([b[1], sb[1]], ("adt", "Result", 0, {0: ("adt", "Option", 1, {0: v})}), "ok-some", self.ident(v)))
                outs.append(out([b[1], "(not %s)" % sb[1]], ("adt", "Result", 0, {0: ("adt", "Option", 0, {})}), "ok-none", None))
            else:
                v = ex.fresh_of_type("val_" + tag, okty)
                outs.append(out([b[1]], ("adt", "Result", 0, {0: v}), "ok", self.ident(v)))
            outs.append(out(["(not %s)" % b[1]], ("adt", "Result", 1, {0: errv}), "err", errv[1]))
            return outs
        if ty.startswith("Option<"):
            (inner,) = split_generic(ty, "Option")
            sb = ex.fresh_bool("some_" + tag)
            v = ex.fresh_of_type("val_" + tag, inner)
            return [out([sb[1]], ("adt", "Option", 1, {0: v}), "some", self.ident(v)), out(["(not %s)" % sb[1]], ("adt", "Option", 0, {}), "none", None)]
        if ty == "CacheHitAction":
            a = ex.fresh_int("action_" + tag, 8)
            return [out(["(= %s %d)" % (a[1], k)], ("adt", "CacheHitAction", k, {}), "action%d" % k, k) for k in range(3)]
        if ty == "bool":
            b = ex.fresh_bool("b_" + tag)
            return [out([b[1]], ("bool", "true"), "true", True), out(["(not %s)" % b[1]], ("bool", "false"), "false", False)]
        if ty.startswith("(") and ty.endswith(")") and ty != "()":
            v = ("tuple", [ex.fresh_of_type("val_%s_%d" % (tag, i), t) for i, t in enumerate(mir.split_top(ty[1:-1], ","))])
            return [out([], v, "value")]
        v = ex.fresh_of_type("val_" + tag, ty or "unknown")
        return [out([], v, "value")]

    # ---- paths ----------------------------------------------------------------------------------
    def paths(self, res):
        """-> list of dict(pc, rv, events=[(event, outcome)], drops=[...]) for every explored path."""
        out = []
        for (pc, rv, _env) in res:
            evs = []
            for ev in self.log:
                k = len(ev["pc"])
                if ev["pc"] != pc[:k]:
                    continue
                chosen = None
                for o in ev["outs"]:
                    lits = [x for x in o["lits"] if x != "true"]
                    if pc[k:k + len(lits)] == lits:
                        chosen = o
                        break
                if chosen is None:
                    continue  # the call was made on a sibling path sharing this prefix
                evs.append((ev, chosen))
            drops = [d for d in self.drops if d["pc"] == pc[:len(d["pc"])]]
            out.append(dict(pc=pc, rv=rv, rid=self.ident(rv), events=evs, drops=drops))
        return out


def _gou_name(funcs):
    hits = [k for k in funcs if re.search(r"^stack::<impl .*>::get_or_update$", k)]
    if len(hits) != 1:
        raise mir.MirError("stack::Cache::get_or_update not found uniquely in the MIR dump")
    return hits[0]


def _cache_value(f, ws, ck, also=()):
    """The `&Cache` argument: fields are identified by the types the bodies project out of `*_1`
    (`also`: other methods taking `&self` that are inlined into the function explored)."""
    body = "\n".join("\n".join(st) + "\n" + t for g in (f,) + tuple(also) for (st, t) in g.blocks.values())
    fields = {}
    for m in re.finditer(r"\(\(\*_1\)\.(\d+): ", body):
        i = int(m.group(1))
        # the type runs to the matching parenthesis
        j = m.end()
        depth = 1
        k = j
        while k < len(body) and depth:
            if body[k] == "(":
                depth += 1
            elif body[k] == ")":
                depth -= 1
            k += 1
        fields[i] = norm_ty(body[j:k - 1])
    vals = {}
    roles = {}
    for i, t in fields.items():
        if "FullCache" in t:
            vals[i] = ("adt", "Option", 1, {0: ("opaque", "WRITE_CACHE", "Arc<dyn FullCache>")}) if ws else ("adt", "Option", 0, {})
            roles["write_side"] = i
        elif t == "bool":
            vals[i] = ("bool", "AUTOSYNC")
            roles["auto_sync"] = i
        elif "Fn(" in t:
            vals[i] = ("adt", "Option", 1, {0: ("opaque", "CHECKER", "Arc<dyn Fn>")}) if ck else ("adt", "Option", 0, {})
            roles["checker"] = i
        elif "ReadOnlyCache" in t:
            vals[i] = ("opaque", "READ_SIDE", "ReadOnlyCache")
            roles["read_side"] = i
        else:
            vals[i] = ("opaque", "field%d" % i, t)
    return ("ref", [("adt", "Cache", 0, vals)]), roles


def explore_gou(funcs, ws, ck):
    name = _gou_name(funcs)
    f = funcs[name]
    run = Run(funcs, inline=lambda n: n == "promote" or n.endswith("::promote") or n.endswith("Cache::finalize_tempfile"))
    run.ex.decls.append(("AUTOSYNC", "Bool"))
    also = [funcs[k] for k in funcs if re.search(r"^stack::<impl .*>::finalize_tempfile$", k)]
    cache, roles = _cache_value(f, ws, ck, also)
    args = [cache, ("opaque", "KEY", "Key"), ("opaque", "JUDGE", "FnOnce"), ("opaque", "POPULATE", "FnOnce")]
    res = run.ex.run(name, args)
    return run, run.paths(res), roles


# ---- rules -----------------------------------------------------------------------------------------
def _first(evs, kind, start=0):
    for i in range(start, len(evs)):
        if evs[i][0]["kind"] == kind:
            return i
    return None


def _all(evs, kind):
    return [i for i in range(len(evs)) if evs[i][0]["kind"] == kind]


def _flat(x):
    if isinstance(x, (tuple, list)):
        for y in x:
            for z in _flat(y):
                yield z
    else:
        yield x


def analyse(path, ws, ck):
    """-> list of (rule id, message) violated on this path."""
    evs = path["events"]
    bad = []
    rid = path["rid"]              # ('Result', 0|1, (payload,))
    ok = rid[1] == 0
    ret = rid[2][0] if rid[2] else None
    kinds = [e["kind"] for (e, _o) in evs]

    wget = _all(evs, "W_GET")
    rget = _all(evs, "R_GET")
    judge = _first(evs, "JUDGE")
    # ---- lookup order and classification (C13) ------------------------------------------------
    if not ws and any(k.startswith("W_") for k in kinds):
        bad.append(("order", "a write-cache call without a write cache"))
    hit_w = hit_r = None
    if ws:
        if not wget or (rget and rget[0] < wget[0]):
            if kinds:
                bad.append(("order", "the write cache is not consulted first"))
        else:
            o = evs[wget[0]][1]
            if o["label"] == "ok-some":
                hit_w = o["id"]
            elif o["label"] == "err":
                if ok or ret != o["id"]:
                    bad.append(("errors", "a failed write-cache lookup is not reported"))
                return bad
    if rget:
        o = evs[rget[0]][1]
        if o["label"] == "ok-some":
            hit_r = o["id"]
        elif o["label"] == "err":
            if ok or ret != o["id"]:
                bad.append(("errors", "a failed read-side lookup is not reported"))
                if ck:
                    bad.append(("checker", "an error of the read-only stack (which compares its copies) does not reach the caller"))
            return bad
    if hit_w is None and not rget and kinds:
        bad.append(("order", "the read-only caches are not consulted after a write-cache miss"))
    if hit_w is not None and rget and not ck:
        bad.append(("checker-off", "with no checker configured later copies are consulted after a primary hit"))
    hit = hit_w if hit_w is not None else hit_r
    primary = hit_w is not None
    action = None
    if judge is not None:
        je, jo = evs[judge]
        action = jo["id"]
        arg = je["args"][1] if len(je["args"]) > 1 else None
        flat = list(_flat(arg))
        want = "Primary" if primary else "Secondary"
        if hit is None:
            bad.append(("classify", "the judge is called without a hit"))
        elif want not in flat or hit not in flat:
            bad.append(("classify", "the judge does not see the first copy found, classified as %s" % want.lower()))
    elif hit is not None:
        # legitimate only when an earlier step failed
        errs = [o for (e, o) in evs if o["label"] == "err"]
        if not errs:
            bad.append(("classify", "a hit is not submitted to the judge"))

    # ---- errors are reported (C18 / C03) ---------------------------------------------------------
    for idx, (e, o) in enumerate(evs):
        if o["label"] != "err":
            continue
        swallowed = False
        if e["kind"] == "POPULATE":
            # NotFound from the comparison populate skips the comparison
            nxt = [x for x in evs[idx + 1:idx + 4] if x[0]["kind"] == "KINDEQ"]
            if nxt and nxt[0][1]["label"] == "true" and action in (0, 1) and ck:
                swallowed = True
        if e["kind"] == "W_GET" and idx != (wget[0] if wget else -1):
            swallowed = True   # the re-lookup after put: falls back to the handle opened before publication
        if swallowed:
            continue
        if ok or ret != o["id"]:
            bad.append(("errors", "%s failed and the error is not returned" % e["kind"]))
        break  # later calls happen only on paths where this one was swallowed

    pubs = [(i, evs[i][0]["kind"]) for i in range(len(evs)) if evs[i][0]["kind"] in ("W_PUT", "W_SET")]
    seeks = [(i, evs[i][0]["args"]) for i in _all(evs, "SEEK") if evs[i][1]["label"] == "ok"]
    pops = _all(evs, "POPULATE")
    checks = _all(evs, "CHECK")

    def touched_after_last_rewind(fid):
        last_touch = -1
        for i, (e, _o) in enumerate(evs):
            if e["kind"] in ("JUDGE", "CHECK", "POPULATE", "COPY") and fid in list(_flat(e["args"])):
                last_touch = i
        if last_touch < 0:
            return False
        for (i, a) in seeks:
            if i > last_touch and fid in list(_flat(a)) and "Start" in list(_flat(a)):
                return False
        return True

    # ---- checker (C14) ------------------------------------------------------------------------------
    if not ck and checks:
        bad.append(("checker-off", "a checker is called although none is configured"))
    if ck and primary and ok and judge is not None:
        if not rget or rget[0] > judge:
            bad.append(("checker", "a primary hit is not compared with the read-only copies before it is judged"))
        elif hit_r is not None:
            if not any(hit_w in list(_flat(evs[i][0]["args"])) and hit_r in list(_flat(evs[i][0]["args"])) for i in checks if i < judge):
                bad.append(("checker", "a primary hit is not compared with the read-only copy found"))
    if ck and ok and action in (0, 1) and hit is not None:
        after = [i for i in pops if i > judge]
        if not after:
            bad.append(("checker", "an accepted hit is not compared with a freshly populated value"))
        else:
            pe, po = evs[after[0]]
            if po["label"] == "ok":
                if not any(i > after[0] and hit in list(_flat(evs[i][0]["args"])) for i in checks):
                    bad.append(("checker", "an accepted hit is not compared with the freshly populated value"))
    for i in checks:
        if evs[i][1]["label"] == "err" and (ok or ret != evs[i][1]["id"]):
            bad.append(("checker", "a checker error does not reach the caller"))

    if not ok:
        # nothing may be published after the failure that is being reported (C18): the failing call is the last fallible one
        return bad

    # ---- hit actions (C13) ---------------------------------------------------------------------------
    if hit is not None and action in (0, 1) and (action == 0 or primary or not ws):
        if ret != hit:
            bad.append(("actions", "Accept (or Promote of a primary hit) does not return the hit"))
        if pubs:
            bad.append(("actions", "Accept (or Promote of a primary hit) writes to the write cache"))
    elif hit is not None and action == 1:
        # Promote of a secondary hit with a write cache
        if ret != hit:
            bad.append(("actions", "Promote does not return the hit"))
        if [k for (_i, k) in pubs] != ["W_PUT"]:
            bad.append(("actions", "Promote does not leave exactly one copy in the write cache through put"))
        else:
            cp = _all(evs, "COPY")
            fin = _all(evs, "FINALIZE")
            if not cp or hit not in list(_flat(evs[cp[0]][0]["args"])) or not fin or not (cp[0] < fin[0] < pubs[0][0]):
                bad.append(("actions", "Promote does not publish a finalized copy of the hit"))
            elif evs[fin[0]][1]["id"] not in list(_flat(evs[pubs[0][0]][0]["args"])):
                bad.append(("actions", "Promote publishes something other than the finalized copy"))
    elif ws:
        # miss, or Replace
        replace = hit is not None
        want = ["W_SET"] if replace else ["W_PUT"]
        if [k for (_i, k) in pubs] != want:
            bad.append(("actions", "%s does not publish the populated value with exactly one %s" % ("Replace" if replace else "a miss", "set (overwrite)" if replace else "put")))
        else:
            fin = _all(evs, "FINALIZE")
            op = _all(evs, "OPEN")
            if not pops or not fin or not op or not (pops[-1] < fin[-1] < op[-1] < pubs[0][0]):
                bad.append(("actions", "the value is not populated, finalized and opened before it is published"))
            else:
                pe = evs[pops[-1]][0]
                old = list(_flat(pe["args"]))
                if replace and hit not in old:
                    bad.append(("actions", "Replace does not hand the old file to populate"))
                path_id = evs[fin[-1]][1]["id"]
                # values obtained from the finalized path through other calls (conversions) name the same file
                fam = {path_id}
                grew = True
                while grew:
                    grew = False
                    for (e2, o2) in evs:
                        if e2["kind"] == "OTHER" and isinstance(o2["id"], str) and o2["id"] not in fam and any(a in fam for a in _flat(e2["args"])):
                            fam.add(o2["id"])
                            grew = True
                if not (fam & set(_flat(evs[pubs[0][0]][0]["args"]))) or not (fam & set(_flat(evs[op[-1]][0]["args"]))):
                    bad.append(("actions", "what is published or returned is not the finalized temporary file"))
                opened = evs[op[-1]][1]["id"]
                if replace:
                    if ret != opened:
                        bad.append(("actions", "Replace does not return the newly populated value"))
                else:
                    relook = [i for i in wget if i > pubs[0][0]]
                    if relook and evs[relook[0]][1]["label"] == "ok-some":
                        if ret != evs[relook[0]][1]["id"]:
                            bad.append(("ensure", "after a miss the value now cached under the key is not the one returned"))
                    elif not relook:
                        bad.append(("ensure", "after a miss the cache is not consulted again for the winning value"))
                    elif ret != opened:
                        bad.append(("actions", "a miss does not return the newly populated value"))
    else:
        # no write cache: throw-away file
        tf = _all(evs, "TEMPFILE")
        if not tf or not pops or ret != evs[tf[-1]][1]["id"]:
            bad.append(("actions", "without a write cache a miss is not served from a throw-away file"))

    # ---- read-only handles (C19): what is returned comes from a lookup or from a read-only open ---------
    if ret is not None:
        src_ok = set(o["id"] for (e, o) in evs if e["kind"] in ("W_GET", "R_GET", "OPEN") and o["label"] in ("ok", "ok-some"))
        if not ws:
            src_ok |= set(o["id"] for (e, o) in evs if e["kind"] == "TEMPFILE" and o["label"] == "ok")
        if ret not in src_ok:
            bad.append(("readonly-handle", "the handle returned was not obtained by a lookup or a read-only open"))
    for i in _all(evs, "COPY"):
        a = list(_flat(evs[i][0]["args"]))
        if a:
            fid = a[0]
            lt = -1
            for j in range(i):
                if evs[j][0]["kind"] in ("JUDGE", "CHECK", "POPULATE", "COPY") and fid in list(_flat(evs[j][0]["args"])):
                    lt = j
            if lt >= 0 and not any(lt < s_ < i and fid in list(_flat(sa)) for (s_, sa) in seeks):
                bad.append(("rewind", "a promoted copy is taken from a handle that was consumed and not rewound"))
    # ---- flush (C03): every finalization follows the cache's auto_sync setting ------------------------------
    for (e, o) in evs:
        if e["kind"] == "FINALIZE" and e["callee"] == "finalize_tempfile" and len(e["args"]) >= 2 and e["args"][1] != "AUTOSYNC":
            bad.append(("flush", "a temporary file is finalized with sync=%s instead of the cache's auto_sync setting" % (e["args"][1],)))
    # ---- rewind (C19) ---------------------------------------------------------------------------------
    if ret is not None and touched_after_last_rewind(ret):
        bad.append(("rewind", "the returned handle was consumed by the judge, the checker or populate and not rewound"))
    for i in checks:
        # both operands of a comparison start at offset 0
        a = list(_flat(evs[i][0]["args"]))
        for fid in a:
            if isinstance(fid, str) and (fid.startswith("val_") or fid.startswith("file_of_")):
                lt = -1
                for j in range(i):
                    if evs[j][0]["kind"] in ("JUDGE", "CHECK", "POPULATE", "COPY") and fid in list(_flat(evs[j][0]["args"])):
                        lt = j
                if lt >= 0 and not any(lt < s < i and fid in list(_flat(sa)) for (s, sa) in seeks):
                    bad.append(("rewind", "a file handed to the checker was consumed before and not rewound"))
    return bad


def temp_discipline(path):
    """C18: every temporary file object is dropped (deleted) or finalized; temp paths only ever
    dereferenced, never kept/persisted/forgotten."""
    bad = []
    evs = path["events"]
    created = [o["id"] for (e, o) in evs if e["kind"] == "NEWTEMP" and o["label"] == "ok"]
    finalized = {}
    for (e, o) in evs:
        if e["kind"] == "FINALIZE":
            for a in _flat(e["args"]):
                if a in created:
                    finalized[a] = o
    dropped = set(d["id"] for d in path["drops"] if isinstance(d["id"], str))
    for t in created:
        if t in finalized:
            o = finalized[t]
            if o["label"] == "ok" and o["id"] not in dropped:
                bad.append(("temp", "a finalized temporary path is not dropped (deleted) on this path"))
        elif t not in dropped:
            bad.append(("temp", "a temporary file is neither finalized nor dropped (deleted) on this path"))
    tpaths = set(o["id"] for (e, o) in evs if e["kind"] == "FINALIZE" and o["label"] == "ok")
    for (e, o) in evs:
        if e["kind"] == "OTHER" and any(a in tpaths or a in created for a in _flat(e["args"])):
            bad.append(("temp", "a temporary file is handed to %s" % e["callee"][:60]))
    return bad


RULES = {
    "order": ("C13", "the write cache is consulted first, read-only caches only after a write-cache miss (or for the checker)"),
    "classify": ("C13", "the judge sees the first copy found, as Primary exactly when it came from the write cache"),
    "actions": ("C13+C03", "Accept changes nothing; Promote publishes a finalized copy through put; Replace publishes through set, a miss through put; the value returned is the specified one"),
    "ensure": ("C04+C13", "after a miss the handle returned is the entry now cached under the key (the winning value), falling back to the populated file"),
    "checker": ("C14", "with a checker: a primary hit is compared with the read-only copy, an accepted hit with a freshly populated value (unless NotFound); checker errors reach the caller"),
    "checker-off": ("C14", "without a checker no comparison is made and later copies are not consulted after a primary hit"),
    "errors": ("C18+C03", "every failing callee's own error is returned (only the documented NotFound and the re-lookup after put are absorbed)"),
    "rewind": ("C19+C01", "handles returned, compared or copied from are rewound after every judge / checker / populate that consumed them"),
    "readonly-handle": ("C19", "the handle returned comes from a cache lookup or a read-only open of the published file, never from the writable temporary file"),
    "flush": ("C03", "every temporary file is finalized with the cache's auto_sync setting (promotion included)"),
    "temp": ("C18", "temporary files are finalized or dropped on every path, temporary paths are only dereferenced and dropped"),
}


def stack_gou_glue(funcs, text):
    f = _gou_name(funcs)
    obs = []
    viol = {k: [] for k in RULES}
    npaths = 0
    nok = 0
    cover = set()
    decls = []
    for ws in (True, False):
        for ck in (True, False):
            run, paths, roles = explore_gou(funcs, ws, ck)
            decls += run.ex.decls
            for p in paths:
                npaths += 1
                b = analyse(p, ws, ck) + temp_discipline(p)
                if p["rid"][1] == 0:
                    nok += 1
                    acts = [o["id"] for (e, o) in p["events"] if e["kind"] == "JUDGE"]
                    cover.add((ws, ck, acts[0] if acts else None))
                for (rule, msg) in b:
                    viol[rule].append((p["pc"], msg, (ws, ck)))
    fnames = [f, "promote", f + "::{closure#0}", f + "::{closure#1}"]
    for rule, (tags, text_) in RULES.items():
        vs = viol[rule]
        if vs:
            goal = "(not (or %s))" % " ".join("(and true %s)" % " ".join(pc) for (pc, _m, _c) in vs[:40])
            note = "; ".join(sorted(set("%s [write cache: %s, checker: %s]" % (m, c[0], c[1]) for (_pc, m, c) in vs))[:4])
        else:
            goal = "true"
            note = "no explored path violates the rule"
        ob = Obligation("%s: get_or_update: %s" % (tags, text_), decls, [], goal, fnames, note=note, native_py=NATIVE.get(rule))
        obs.append(ob)
    want = {(ws, ck, a) for ws in (True, False) for ck in (True, False) for a in (None, 0, 1, 2)}
    obs.append(Obligation("witness: successful paths exist for every (write cache, checker, miss/Accept/Promote/Replace) combination",
                          [], [], "false" if want <= cover else "true", fnames, expect="sat",
                          note="%d paths explored, %d successful; missing combinations: %r" % (npaths, nok, sorted(want - cover, key=str)[:4])))
    return obs, dict(models=["every callee uninterpreted: each outcome its type allows, fresh identities"], inlined=fnames)


# ---- finalize_tempfile (C03 / C18 / C19) ------------------------------------------------------------------
def stack_finalize_glue(funcs, text):
    hits = [k for k in funcs if k == "finalize_tempfile"]
    if len(hits) != 1:
        raise mir.MirError("stack::finalize_tempfile not found uniquely in the MIR dump")
    name = hits[0]
    viol = dict(sync=[], errors=[], mode=[])
    decls = []
    n = 0
    for sync in (True, False):
        run = Run(funcs, inline=lambda nm: nm.endswith("fix_tempfile_permissions"))
        res = run.ex.run(name, [("opaque", "TMP", "NamedTempFile"), ("bool", "true" if sync else "false")])
        decls += run.ex.decls
        for p in run.paths(res):
            n += 1
            evs = p["events"]
            ok = p["rid"][1] == 0
            ret = p["rid"][2][0] if p["rid"][2] else None
            kinds = [e["kind"] for (e, _o) in evs]
            syncs = [i for i, k in enumerate(kinds) if k == "SYNC"]
            if ok and sync and not syncs:
                viol["sync"].append((p["pc"], "auto_sync: the file is not flushed before its path is handed back"))
            if ok and not sync and syncs:
                viol["sync"].append((p["pc"], "the file is flushed although syncing is off"))
            for (e, o) in evs:
                if o["label"] == "err" and (ok or ret != o["id"]):
                    viol["errors"].append((p["pc"], "%s failed and finalize_tempfile does not return that error" % e["kind"]))
                    break
            if ok and "SET_PERM" not in kinds:
                viol["mode"].append((p["pc"], "the temporary file's mode is not set before publication"))
            if ok and syncs and "SET_PERM" in kinds and kinds.index("SET_PERM") > syncs[0]:
                pass
    obs = []
    texts = dict(sync=("C03", "finalize_tempfile flushes the file exactly when syncing is requested, before returning its path"),
                 errors=("C03+C18", "finalize_tempfile returns the error of whichever of chmod / fsync / close failed (a failed flush is never followed by publication)"),
                 mode=("C19", "finalize_tempfile sets the file's mode before handing back the path"))
    for k, (tags, t) in texts.items():
        vs = viol[k]
        goal = "true" if not vs else "(not (or %s))" % " ".join("(and true %s)" % " ".join(pc) for (pc, _m) in vs[:40])
        obs.append(Obligation("%s: %s" % (tags, t), decls, [], goal, [name], note=("; ".join(sorted(set(m for (_pc, m) in vs))[:3]) or "no explored path violates the rule"),
                              native_py=NATIVE.get("finalize_" + k)))
    obs.append(Obligation("witness: finalize_tempfile paths explored", [], [], "false", [name], expect="sat", note="%d paths" % n))
    return obs, dict(models=["every callee uninterpreted"], inlined=[name])


# ---- native confirmation (the real library, debug and release, through replay/kvreplay) -------------------
def _file(path, content, inode):
    return dict(used=1, nlink=1, is_dir=0, mode=0o100444, mt_s=1000 + inode, mt_ns=0, at_s=900, at_ns=0, content=content, key_tag=0,
                complete=1, dirty=0, own=0, foreign=0, published=1, path=path, dir={"w": 0, "r": 2, "q": 4}[path.split("/")[0]], slot=0, inode=inode)


def mk_scen(sop, w=None, r=None, checker=0, action=None, pop=0, readers=1, fault=None, maint=False):
    """Scenario document for one stacked operation on /w (plain writer) over /r: `w`, `r` are content ids or None."""
    bits = 1 | (readers << 4) | (sop << 8) | (checker << 16) | (1 << 20)
    files = []
    if w is not None:
        files.append(_file("w/ka", w, 0))
    if r is not None and readers >= 1:
        files.append(_file("r/ka", r, 1))
    dirs = [dict(id=0, path="w", readonly_root=False, shared=False)] + ([dict(id=2, path="r", readonly_root=True, shared=False)] if readers >= 1 else [])
    return dict(harness="engine-M", config=dict(policy=1, gran=0, env=0, auto_sync=1, fail_at=65535, fail_errno=5, now_s=5000, now_ns=0),
                op=dict(code=30, a0=bits, a1=0, a2=0, a3=action, a4=pop), dirs=dirs, files=files,
                calls=([dict(n=1, kind="readdir", dir=0, slot=255)] if maint else []), env=[], fault=fault)


def _native(scratch):
    from . import scenario
    nat = getattr(scratch, "_native", None) or scenario.Native(scratch)
    scratch._native = nat
    nat.build()
    return nat, scenario


def _first_reproduced(results):
    results = [r for r in results if r is not None]
    for r in results:
        if r["reproduced"]:
            return r
    if results:
        return dict(reproduced=False, detail=" | ".join(r["detail"] for r in results)[:600], signature=results[0].get("signature", {}))
    return dict(reproduced=False, detail="no native scenario applies", signature={})


# ---- native conformance sweep of the stacked cache against a reference model of C13 / C14 / C19 ----------------
VALS = {None: None, 50: "value-50", 60: "value-60"}


def _expected(w, rs, checker, op, action, pop, writer):
    """Reference outcome: dict(result, handle content or None, w_after) for one configuration (quiet, no peers)."""
    copies = ([VALS[w]] if (writer and w is not None) else []) + [VALS[r] for r in rs if r is not None]
    first = copies[0] if copies else None
    primary = writer and w is not None
    w_after = VALS[w] if writer else None
    if checker and len(set(copies)) > 1:
        return dict(result="err", handle=None, w_after=w_after)
    if op == "get":
        return dict(result="ok", handle=first, w_after=w_after)
    if first is not None and action in ("accept", "promote"):
        if checker:
            if pop == "!error" or (pop.startswith("value-") and first != pop):
                return dict(result="err", handle=None, w_after=w_after)
        if action == "promote" and writer and not primary:
            w_after = first
        return dict(result="ok", handle=first, w_after=w_after)
    # miss or Replace
    if not pop.startswith("value-"):
        return dict(result="err", handle=None, w_after=w_after)
    return dict(result="ok", handle=pop, w_after=(pop if writer else None))


def native_stack_sweep(scratch, want):
    """Run the real library over the configuration matrix and compare with the reference model.
    `want`: categories of deviation to report ('value', 'checker', 'handle', 'temp', 'readonly')."""
    import itertools
    import shutil
    nat, sc = _native(scratch)
    devs = {"debug": [], "release": []}
    for profile in ("debug", "release"):
        for writer in (True, False):
            for nread in (0, 1, 2):
                for w in ((None, 50, 60) if writer else (None,)):
                    for rs in itertools.product((None, 50, 60), repeat=nread):
                        for checker in (False, True):
                            for (op, action) in (("get", None), ("gou", "accept"), ("gou", "promote"), ("gou", "replace"), ("ensure", "promote")):
                                for pop in (("value-70", "value-50", "!notfound", "!error") if op != "get" else (None,)):
                                    if len(devs[profile]) >= 6:
                                        continue
                                    root = nat.sandbox()
                                    try:
                                        wd = os.path.join(root, "w")
                                        os.makedirs(wd)
                                        if writer and w is not None:
                                            _mkfile(os.path.join(wd, "ka"), VALS[w])
                                        rdirs = []
                                        for i, r in enumerate(rs):
                                            rd = os.path.join(root, "r%d" % i)
                                            os.makedirs(rd)
                                            rdirs.append(rd)
                                            if r is not None:
                                                _mkfile(os.path.join(rd, "ka"), VALS[r])
                                        args = ["stack", ("plain:%s:100" % wd) if writer else "none", ",".join("plain:%s" % d for d in rdirs) or "-",
                                                "bytes" if checker else "none", 1, op, "ka", 1, 2]
                                        if op == "gou":
                                            args += [action, pop]
                                        elif op == "ensure":
                                            args += [pop]
                                        before_r = {d: _snap(d) for d in rdirs}
                                        out = sc.parse_out(nat.run(args, profile=profile)["out"])
                                        exp = _expected(w, rs, checker, op, action, pop, writer)
                                        cfg = "writer=%s w=%s readers=%s checker=%s op=%s/%s populate=%s" % (writer, w, list(rs), checker, op, action, pop)
                                        got_w = _read(os.path.join(wd, "ka")) if writer else None
                                        h = out["handle"] or {}
                                        cat = None
                                        if out["panic"]:
                                            cat, msg = "value", "panic: %s" % out["panic"][:60]
                                        elif out["result"] != exp["result"]:
                                            cat = "checker" if checker and ("err" in (out["result"], exp["result"])) and len(set(x for x in [VALS[w] if writer else None] + [VALS[r] for r in rs] if x)) > 1 or (checker and str(pop).startswith("value-")) else "value"
                                            msg = "result %s, expected %s" % (out["result"], exp["result"])
                                        elif exp["result"] == "ok" and exp["handle"] is not None and h.get("content") != exp["handle"]:
                                            cat = "handle" if h.get("offset") not in (None, "0") else "value"
                                            msg = "returned %r (offset %s), expected %r" % (h.get("content"), h.get("offset"), exp["handle"])
                                        elif exp["result"] == "ok" and exp["handle"] is not None and (h.get("offset") != "0" or h.get("access") != "rdonly") and not (not writer and exp["handle"] == pop):
                                            cat, msg = "handle", "returned handle access=%s offset=%s" % (h.get("access"), h.get("offset"))
                                        elif got_w != exp["w_after"]:
                                            cat, msg = "value", "write cache holds %r afterwards, expected %r" % (got_w, exp["w_after"])
                                        elif any(_snap(d) != before_r[d] for d in rdirs):
                                            cat, msg = "readonly", "a read-only cache directory changed"
                                        elif os.path.isdir(os.path.join(wd, ".kismet_temp")) and os.listdir(os.path.join(wd, ".kismet_temp")):
                                            cat, msg = "temp", "temporary file left behind: %r" % os.listdir(os.path.join(wd, ".kismet_temp"))[:2]
                                        if cat is not None and cat in want:
                                            devs[profile].append("%s: %s" % (cfg, msg))
                                    finally:
                                        shutil.rmtree(root, ignore_errors=True)
    both = devs["debug"] and devs["release"]
    return dict(reproduced=bool(both), detail=("debug: " + devs["debug"][0] + "; release: " + devs["release"][0]) if both else "the library agrees with the reference model on the whole configuration matrix",
                signature=dict(op="stack-sweep", what="deviation from the reference model of the stacked cache: " + ",".join(sorted(want))),
                deviations={k: v[:6] for k, v in devs.items()})


def _with_sweep(first, want):
    def run(scratch):
        r = first(scratch) if first else None
        if r is not None and r.get("reproduced"):
            return r
        r2 = native_stack_sweep(scratch, want)
        if r2["reproduced"] or r is None:
            return r2
        r["detail"] = (r.get("detail", "") + " | sweep: " + r2["detail"])[:700]
        return r
    return run


def _mkfile(path, text):
    with open(path, "w") as f:
        f.write(text)
    os.chmod(path, 0o444)
    os.utime(path, ns=(900 * 10**9, 1000 * 10**9))


def _read(path):
    try:
        return open(path).read()
    except OSError:
        return None


def _snap(d):
    out = {}
    for n in sorted(os.listdir(d)):
        st = os.lstat(os.path.join(d, n))
        out[n] = (st.st_mode, st.st_size, st.st_mtime_ns, st.st_nlink)
    return out


def native_actions(scratch):
    """Replace on a read-only hit / a miss, with another participant publishing the key while populate runs."""
    nat, sc = _native(scratch)
    return _first_reproduced([sc.o_peer_put_during_populate(mk_scen(3, w=None, r=50, action=2), nat, ""),
                              sc.o_peer_put_during_populate(mk_scen(3, w=None, r=None, action=1), nat, ""),
                              sc.o_peer_put_during_populate(mk_scen(2, w=None, r=None), nat, "")])


def native_checker(scratch):
    """A hit that differs from another copy / from the freshly populated value must make the call fail."""
    nat, sc = _native(scratch)
    outs = []
    for scen in (mk_scen(3, w=50, r=None, checker=1, action=0, pop=0, readers=0),     # primary hit vs populated value-70, no read side
                 mk_scen(3, w=50, r=None, checker=1, action=0, pop=0, readers=1),
                 mk_scen(3, w=None, r=50, checker=1, action=0, pop=0),                # read-only hit vs populated value
                 mk_scen(3, w=50, r=60, checker=1, action=0, pop=1),                  # primary hit vs differing read-only copy
                 mk_scen(2, w=50, r=None, checker=1, pop=0, readers=0)):
        outs.append(sc.o_checker_bypassed(scen, nat, ""))
    return _first_reproduced(outs)


def native_rewind(scratch):
    nat, sc = _native(scratch)
    outs = []
    for scen in (mk_scen(3, w=50, r=50, checker=1, action=0, pop=1), mk_scen(3, w=50, r=None, checker=1, action=0, pop=1, readers=0),
                 mk_scen(3, w=None, r=50, checker=1, action=0, pop=1), mk_scen(3, w=None, r=50, checker=1, action=1, pop=1),
                 mk_scen(3, w=50, r=None, checker=0, action=0), mk_scen(3, w=None, r=50, checker=0, action=1),
                 mk_scen(3, w=50, r=50, checker=1, action=1, pop=1)):
        outs.append(sc.o_offset_zero(scen, nat, ""))
    return _first_reproduced(outs)


def native_errors(scratch):
    """populate's own failure (other than NotFound on the comparison path) must fail the call."""
    nat, sc = _native(scratch)
    bad = []
    for scen in (mk_scen(3, w=None, r=None, action=1, pop=2), mk_scen(3, w=50, r=None, checker=1, action=0, pop=2), mk_scen(3, w=None, r=50, action=2, pop=2)):
        for profile in ("debug", "release"):
            r = sc.run_scenario(scen, nat, profile)
            if r is not None and r["out"]["result"] == "ok":
                bad.append((profile, "populate failed and the call reported success: %r" % (r["raw"],)))
    return sc.verdict(bad, mk_scen(3), "an error of populate is not reported", "populate errors are reported natively")


def native_temp(scratch):
    nat, sc = _native(scratch)
    outs = []
    for kind in ("readdir", "link", "rename", "chmod", "utimes"):
        for scen in (mk_scen(3, w=None, r=None, action=1, fault=dict(kind=kind, occurrence=1, errno=5), maint=(kind == "readdir")),
                     mk_scen(3, w=None, r=50, action=2, fault=dict(kind=kind, occurrence=1, errno=5), maint=(kind == "readdir"))):
            try:
                outs.append(sc.o_temp_leak(scen, nat, ""))
            except Exception as e:  # a fault kind this build never issues
                outs.append(None)
    return _first_reproduced(outs)


def native_flush_order(scratch):
    """With auto_sync on, an fsync of the file precedes the call that makes it visible under the key (every publishing path)."""
    nat, sc = _native(scratch)
    outs = []
    for scen, what in ((mk_scen(6, w=None, r=None), "set_temp_file"), (mk_scen(7, w=None, r=None), "put_temp_file"), (mk_scen(3, w=None, r=None, action=1), "miss"),
                       (mk_scen(3, w=None, r=50, action=1), "promotion"), (mk_scen(3, w=50, r=None, action=2), "replace"), (mk_scen(4, w=None, r=None), "set"), (mk_scen(5, w=None, r=None), "put")):
        bad = []
        for profile in ("debug", "release"):
            r = sc.run_scenario(scen, nat, profile, strace=[])
            if r is None:
                continue
            lines = r["strace"] or []
            pub = next((i for i, ln in enumerate(lines) if re.search(r"\b(rename|renameat|renameat2|link|linkat)\(", ln) and "/w/ka" in ln and "= 0" in ln), None)
            if pub is None:
                continue
            if not any("fsync(" in ln and "= 0" in ln for ln in lines[:pub]):
                bad.append((profile, "%s: the key is published with no preceding fsync: %s" % (what, lines[pub][:100])))
        outs.append(sc.verdict(bad, scen, "publication without a preceding flush", "a flush precedes publication natively"))
    return _first_reproduced(outs)


def native_finalize_errors(scratch):
    nat, sc = _native(scratch)
    r0 = native_flush_order(scratch)
    if r0.get("reproduced"):
        return r0
    return _first_reproduced([sc.o_flush_failed_published(mk_scen(6, w=None, r=None), nat, ""),
                              sc.o_flush_failed_published(mk_scen(3, w=None, r=None, action=1), nat, "")])


# ---- the other entry points: get, touch, set, put, set_temp_file, put_temp_file ---------------------------------
def _stack_fn(funcs, suffix):
    hits = [k for k in funcs if re.search(r"^stack::<impl .*>::" + re.escape(suffix) + "$", k)]
    if len(hits) != 1:
        raise mir.MirError("stack::Cache::%s not found uniquely in the MIR dump (%r)" % (suffix, hits))
    return hits[0]


def stack_ops_glue(funcs, text):
    viol = {}
    decls = []
    fnames = []
    counts = {}

    def bad(rule, pc, msg):
        viol.setdefault(rule, []).append((pc, msg))

    inline = lambda n: bool(re.search(r"(set_impl|put_impl|maybe_sync_path)$", n))  # noqa: E731
    wsv = lambda ws: ("adt", "Option", 1, {0: ("opaque", "WRITE_CACHE", "dyn FullCache")}) if ws else ("adt", "Option", 0, {})  # noqa: E731
    ckv = lambda ck: ("adt", "Option", 1, {0: ("opaque", "CHECKER", "Arc<dyn Fn>")}) if ck else ("adt", "Option", 0, {})  # noqa: E731

    # ---- get ----------------------------------------------------------------------------------------------
    name = _stack_fn(funcs, "get::doit")
    fnames.append(name)
    for ws in (True, False):
        for ck in (True, False):
            run = Run(funcs, inline=inline)
            res = run.ex.run(name, [wsv(ws), ckv(ck), ("ref", [("opaque", "READ_SIDE", "ReadOnlyCache")]), ("opaque", "KEY", "Key")])
            decls += run.ex.decls
            for p in run.paths(res):
                counts["get"] = counts.get("get", 0) + 1
                evs = p["events"]
                kinds = [e["kind"] for (e, _o) in evs]
                ok = p["rid"][1] == 0
                ret = p["rid"][2][0] if p["rid"][2] else None
                for (e, o) in evs:
                    if o["label"] == "err":
                        if ok or ret != o["id"]:
                            bad("errors", p["pc"], "get: %s failed and the error is not returned" % e["kind"])
                            if ck and e["kind"] in ("R_GET", "CHECK"):
                                bad("checker", p["pc"], "get: an error of the comparison with the read-only copies does not reach the caller")
                        break
                if not ok:
                    continue
                wg = _all(evs, "W_GET")
                rg = _all(evs, "R_GET")
                ch = _all(evs, "CHECK")
                if not ws and wg:
                    bad("order", p["pc"], "get: a write-cache lookup without a write cache")
                if ws and (not wg or (rg and rg[0] < wg[0])):
                    bad("order", p["pc"], "get: the write cache is not consulted first")
                hit = evs[wg[0]][1]["id"] if (ws and wg and evs[wg[0]][1]["label"] == "ok-some") else None
                if hit is not None:
                    if ret != ("Option", 1, (hit,)):
                        bad("order", p["pc"], "get: a write-cache hit is not what is returned")
                    if not ck and (rg or ch):
                        bad("checker-off", p["pc"], "get: later copies are consulted although no checker is configured")
                    if ck:
                        if not rg:
                            bad("checker", p["pc"], "get: a write-cache hit is not compared with the read-only copies")
                        elif evs[rg[0]][1]["label"] == "ok-some":
                            other = evs[rg[0]][1]["id"]
                            if not any(hit in list(_flat(evs[i][0]["args"])) and other in list(_flat(evs[i][0]["args"])) for i in ch):
                                bad("checker", p["pc"], "get: a write-cache hit is not compared with the read-only copy found")
                            sk = [i for i in _all(evs, "SEEK") if evs[i][1]["label"] == "ok" and hit in list(_flat(evs[i][0]["args"])) and "Start" in list(_flat(evs[i][0]["args"]))]
                            if ch and not any(i > ch[-1] for i in sk):
                                bad("rewind", p["pc"], "get: the returned handle is not rewound after the checker consumed it")
                else:
                    if not rg:
                        bad("order", p["pc"], "get: the read-only caches are not consulted after a write-cache miss")
                    else:
                        o = evs[rg[-1]][1]
                        want = ("Option", 1, (o["id"],)) if o["label"] == "ok-some" else ("Option", 0, ())
                        if ret != want:
                            bad("order", p["pc"], "get: the read-only stack's answer is not what is returned after a write-cache miss")
    # ---- touch --------------------------------------------------------------------------------------------
    name = _stack_fn(funcs, "touch::doit")
    fnames.append(name)
    for ws in (True, False):
        run = Run(funcs, inline=inline)
        res = run.ex.run(name, [wsv(ws), ("ref", [("opaque", "READ_SIDE", "ReadOnlyCache")]), ("opaque", "KEY", "Key")])
        decls += run.ex.decls
        for p in run.paths(res):
            counts["touch"] = counts.get("touch", 0) + 1
            evs = p["events"]
            ok = p["rid"][1] == 0
            ret = p["rid"][2][0] if p["rid"][2] else None
            for (e, o) in evs:
                if o["label"] == "err":
                    if ok or ret != o["id"]:
                        bad("errors", p["pc"], "touch: %s failed and the error is not returned" % e["kind"])
                    break
            if not ok:
                continue
            wt = _all(evs, "W_TOUCH")
            rt = _all(evs, "R_TOUCH")
            if ws and (not wt or (rt and rt[0] < wt[0])):
                bad("order", p["pc"], "touch: the write cache is not consulted first")
            if not ws and wt:
                bad("order", p["pc"], "touch: a write-cache call without a write cache")
            found_w = ws and wt and evs[wt[0]][1]["id"] not in (None,) and evs[wt[0]][1]["label"] == "ok" and False
            # the write cache's answer is a bool payload: identity of the value returned
            if ws and wt and not rt:
                if ret not in ("true", evs[wt[0]][1]["id"]):
                    bad("order", p["pc"], "touch: the write cache's answer is not what is returned")
            elif rt:
                if ret != evs[rt[-1]][1]["id"]:
                    bad("order", p["pc"], "touch: the read-only stack's answer is not what is returned")
            else:
                bad("order", p["pc"], "touch: no level is consulted")
            _ = found_w
    # ---- set / put / set_temp_file / put_temp_file ------------------------------------------------------------
    for op, pub, temp in (("set::doit", "W_SET", False), ("put::doit", "W_PUT", False), ("set_temp_file::doit", "W_SET", True), ("put_temp_file::doit", "W_PUT", True)):
        name = _stack_fn(funcs, op)
        fnames.append(name)
        for ws in (True, False):
            for sync in (True, False):
                run = Run(funcs, inline=inline)
                f = funcs[name]
                cache, roles = _cache_value(funcs[_stack_fn(funcs, "set_impl")], ws, False)
                # the same Cache layout is used by every method: complete it with the auto_sync flag
                cv = cache[1][0]
                merged = dict(cv[3])
                c2, r2 = _cache_value(funcs[_stack_fn(funcs, "maybe_sync_path")], ws, False)
                for i, v in c2[1][0][3].items():
                    merged.setdefault(i, v)
                for i, v in list(merged.items()):
                    if v == ("bool", "AUTOSYNC"):
                        merged[i] = ("bool", "true" if sync else "false")
                cache = ("ref", [("adt", "Cache", 0, merged)])
                third = ("opaque", "TMP", "NamedTempFile") if temp else ("ref", [("opaque", "SRC", "Path")])
                res = run.ex.run(name, [cache, ("opaque", "KEY", "Key"), third])
                decls += run.ex.decls
                for p in run.paths(res):
                    counts[op] = counts.get(op, 0) + 1
                    evs = p["events"]
                    kinds = [e["kind"] for (e, _o) in evs]
                    ok = p["rid"][1] == 0
                    ret = p["rid"][2][0] if p["rid"][2] else None
                    for (e, o) in evs:
                        if o["label"] == "err":
                            if ok or ret != o["id"]:
                                bad("errors", p["pc"], "%s: %s failed and the error is not returned" % (op, e["kind"]))
                            break
                    pubs = [i for i, k in enumerate(kinds) if k in ("W_SET", "W_PUT")]
                    if not ws:
                        if ok:
                            bad("unsupported", p["pc"], "%s: succeeds without a write cache" % op)
                        if pubs:
                            bad("unsupported", p["pc"], "%s: publishes without a write cache" % op)
                        if not ok and "ERRNEW" in kinds and ret not in [o["id"] for (e, o) in evs if e["kind"] == "ERRNEW"]:
                            bad("unsupported", p["pc"], "%s: the Unsupported error is not what is returned" % op)
                    if ok and ws:
                        if [kinds[i] for i in pubs] != [pub]:
                            bad("publish", p["pc"], "%s: does not publish with exactly one %s" % (op, pub))
                    if pubs:
                        first = pubs[0]
                        if temp:
                            fin = [i for i, k in enumerate(kinds) if k == "FINALIZE"]
                            if not fin or fin[0] > first or evs[fin[0]][1]["label"] != "ok":
                                bad("flush", p["pc"], "%s: publishes a temp file that was not finalized (mode, flush, close) first" % op)
                            elif evs[fin[0]][1]["id"] not in list(_flat(evs[first][0]["args"])):
                                bad("flush", p["pc"], "%s: publishes something other than the finalized temp file" % op)
                        elif sync:
                            sy = [i for i, k in enumerate(kinds) if k == "SYNC"]
                            opn = [i for i, k in enumerate(kinds) if k == "OPEN"]
                            if not sy or sy[0] > first or not opn or "SRC" not in list(_flat(evs[opn[0]][0]["args"])):
                                bad("flush", p["pc"], "%s: auto_sync: the file is not opened and flushed before it is published" % op)
                        elif "SYNC" in kinds:
                            bad("flush", p["pc"], "%s: flushes although syncing is off" % op)
                    if temp:
                        fin = [(e, o) for (e, o) in evs if e["kind"] == "FINALIZE" and o["label"] == "ok"]
                        dropped = set(d["id"] for d in p["drops"] if isinstance(d["id"], str))
                        for (e, o) in fin:
                            if o["id"] not in dropped:
                                bad("temp", p["pc"], "%s: the finalized temporary path is not dropped (deleted) on this path" % op)
    texts = {
        "order": ("C13", "get/touch consult the write cache first, then the read-only stack, and return the first answer"),
        "checker": ("C14", "get: with a checker a write-cache hit is compared with the read-only copy found"),
        "checker-off": ("C14", "get: without a checker later copies are not consulted"),
        "rewind": ("C19", "get: the returned handle is rewound after the checker consumed it"),
        "errors": ("C18", "get/touch/set/put/set_temp_file/put_temp_file return the error of the first failing callee"),
        "unsupported": ("C13", "writes fail as unsupported, and publish nothing, without a write cache"),
        "publish": ("C13", "set / set_temp_file publish through set, put / put_temp_file through put, exactly once"),
        "flush": ("C03", "with auto_sync the file is flushed (temp files: finalized) before it is handed to the write cache; not flushed when off"),
        "temp": ("C18", "set_temp_file / put_temp_file drop (delete) the temporary path on every path"),
    }
    obs = []
    for rule, (tags, t) in texts.items():
        vs = viol.get(rule, [])
        goal = "true" if not vs else "(not (or %s))" % " ".join("(and true %s)" % " ".join(pc) for (pc, _m) in vs[:40])
        obs.append(Obligation("%s: %s" % (tags, t), decls, [], goal, fnames, note=("; ".join(sorted(set(m for (_pc, m) in vs))[:3]) or "no explored path violates the rule"),
                              native_py=NATIVE_OPS.get(rule)))
    obs.append(Obligation("witness: paths explored for every entry point", [], [], "false" if len(counts) == 6 else "true", fnames, expect="sat",
                          note=", ".join("%s: %d" % kv for kv in sorted(counts.items()))))
    return obs, dict(models=["every callee uninterpreted; set_impl / put_impl / maybe_sync_path inlined"], inlined=fnames)


def native_ops_checker(scratch):
    nat, sc = _native(scratch)
    return _first_reproduced([sc.o_checker_bypassed(mk_scen(0, w=50, r=60, checker=1), nat, "")])


def native_ops_rewind(scratch):
    nat, sc = _native(scratch)
    return _first_reproduced([sc.o_offset_zero(mk_scen(0, w=50, r=50, checker=1), nat, ""), sc.o_offset_zero(mk_scen(0, w=None, r=50, checker=1), nat, "")])


def native_ops_errors(scratch):
    """set / put of a file that cannot be opened must fail with an error (not a panic), and get must report a failing level."""
    import shutil
    nat, sc = _native(scratch)
    bad = []
    for profile in ("debug", "release"):
        for op in ("set", "put"):
            root = nat.sandbox()
            try:
                os.makedirs(os.path.join(root, "w"))
                out = sc.parse_out(nat.run(["stack", "plain:%s:100" % os.path.join(root, "w"), "-", "none", 1, op, "ka", 1, 2, os.path.join(root, "missing")], profile=profile)["out"])
                if out["result"] != "err" or out["panic"]:
                    bad.append((profile, "%s of a missing file: result=%s panic=%s" % (op, out["result"], (out["panic"] or "")[:60])))
            finally:
                shutil.rmtree(root, ignore_errors=True)
    return sc.verdict(bad, mk_scen(4), "a failing open is not reported as an error", "a failing open is reported natively")


def native_ops_flush(scratch):
    nat, sc = _native(scratch)
    return _first_reproduced([sc.o_flush_failed_published(mk_scen(6, w=None, r=None), nat, ""), sc.o_flush_failed_published(mk_scen(7, w=None, r=None), nat, "")])


# ---- builders: the checker configured is the checker used, by the cache and by its read-only side (C14) -------------
def builder_glue(funcs, text):
    def one(pattern):
        hits = [k for k in funcs if re.search(pattern, k)]
        if len(hits) != 1:
            raise mir.MirError("builder function %s not found uniquely (%r)" % (pattern, hits[:3]))
        return hits[0]

    arc = one(r"^stack::<impl .*>::arc_consistency_checker$")
    clear = one(r"^stack::<impl .*>::clear_consistency_checker$")
    build = one(r"^stack::<impl .*>::build$")
    fnames = [arc, clear, build]
    viol = {}
    decls = []
    n = 0

    def write_ref(ex, ref, v):
        cell, projs = ref[1], list(ref[2:])
        if not projs:
            cell[0] = v
            return
        obj = cell[0]
        for q in projs[:-1]:
            obj = ex.project(obj, q)
        last = projs[-1]
        if last[0] != "field":
            raise mir.MirError("write through a non-field projection")
        if obj[0] == "adt":
            obj[3][last[1]] = v
        elif obj[0] == "tuple":
            obj[1][last[1]] = v
        else:
            raise mir.MirError("write into %s" % obj[0])

    def m_clone_from(ex, args, pc):
        dst, src = args
        v = ex.project(src, ("deref",)) if src[0] == "ref" else src
        write_ref(ex, dst, v)
        return [([], ("tuple", []))]

    def m_clone(ex, args, pc):
        v = ex.project(args[0], ("deref",)) if args[0][0] == "ref" else args[0]
        return [([], v)]

    def m_take(ex, args, pc):
        old = ex.project(args[0], ("deref",))
        write_ref(ex, args[0], ("adt", "Option", 0, {}))
        return [([], old)]

    def m_default_of(tyname):
        def m(ex, args, pc):
            hits = [k for k in funcs if k.endswith("::default") and re.search(r"-> %s \{$" % tyname, funcs[k].sig)]
            if len(hits) != 1:
                raise mir.MirError("Default for %s not found uniquely" % tyname)
            res = ex.run(hits[0], [], 1)
            return [(rpc, rv) for (rpc, rv, _e) in res]
        return m

    def m_vec_default(ex, args, pc):
        return [([], ("opaque", "EMPTY_VEC", "Vec"))]

    models = {r"<ReadOnlyCacheBuilder as Default>::default$": m_default_of("ReadOnlyCacheBuilder"), r"<ReadOnlyCache as Default>::default$": m_default_of("ReadOnlyCache"),
              r"<Vec<.*> as Default>::default$": m_vec_default, r"<Option<.*> as Default>::default$": lambda ex, a, pc: [([], ("adt", "Option", 0, {}))], r"as Clone>::clone_from$": m_clone_from, r"as Clone>::clone$": m_clone, r"^Option::<.*>::take$": m_take,
              r"^Vec::<.*>::is_empty$": None}
    models = {k: v for k, v in models.items() if v is not None}

    dflt = [k for k in funcs if k.endswith("::default") and re.search(r"-> CacheBuilder \{$", funcs[k].sig)]
    if len(dflt) != 1:
        raise mir.MirError("Default for CacheBuilder not found uniquely")

    def fresh_builder(run, readers):
        # the builder's layout is whatever `CacheBuilder::default()` constructs (field order of the current source)
        res = run.ex.run(dflt[0], [])
        if len(res) != 1:
            raise mir.MirError("CacheBuilder::default has several outcomes")
        return res[0][1]

    def checker_of(cache):
        """(checker of the cache, checker handed to the read-only side) as identities"""
        return cache

    inline = lambda nme: bool(re.search(r"(CacheBuilder::(arc_consistency_checker|clear_consistency_checker|build)|readonly::.*::(arc_consistency_checker|clear_consistency_checker|build)|"
                                        r"ReadOnlyCacheBuilder as Default>::default|ReadOnlyCache as Default>::default)$", nme))  # noqa: E731
    for readers in ("none", "some"):
        for script in (("set",), ("set", "clear"), ("clear",), ()):
            run = Run(funcs, inline=inline, extra_models=models)
            cell = [fresh_builder(run, readers)]
            paths_pc = [[]]
            ok = True
            for step in script:
                if step == "set":
                    res = run.ex.run(arc, [("ref", cell), ("adt", "Option", 1, {0: ("opaque", "CHECKER", "Arc<dyn Fn>")})])
                else:
                    res = run.ex.run(clear, [("ref", cell)])
                if len(res) != 1:
                    ok = False
                    break
            if not ok:
                viol.setdefault("builder", []).append(([], "a builder method has several outcomes (unexpected control flow)"))
                continue
            mark = len(run.log)
            res = run.ex.run(build, [cell[0]])
            decls += run.ex.decls
            for (pc, rv, _env) in res:
                n += 1
                want = "CHECKER" if script and script[-1] == "set" else None
                ident = run.ident(rv)
                flat = list(_flat(ident))
                # the built cache: its own checker field, and the checker its read-only side is constructed with
                ro = [e for e in run.log[mark:] if re.search(r"ReadOnlyCache::new$", e["callee"]) and e["pc"] == pc[:len(e["pc"])]]
                got = (1 if "CHECKER" in flat[:8] or flat.count("CHECKER") >= 1 and not ro else 0)
                got = flat.count("CHECKER") if not ro else (min(flat.count("CHECKER"), 1) + (1 if any("CHECKER" in list(_flat(e["args"])) for e in ro) else 0))
                if want and got < 2:
                    viol.setdefault("builder", []).append((pc, "with %s read-only caches the configured checker reaches %d of the two places that use it (the cache and its read-only side)" % (readers, got)))
                if not want and got:
                    viol.setdefault("builder", []).append((pc, "a cleared / never configured checker is still installed"))
    obs = []
    vs = viol.get("builder", [])
    goal = "true" if not vs else "(not (or %s))" % " ".join("(and true %s)" % " ".join(pc) for (pc, _m) in vs[:40])
    obs.append(Obligation("C14: builders: the consistency checker configured on the builder is the one used by the built cache and by its read-only side, with or without read-only caches; clearing removes both",
                          decls, [], goal, fnames, note=("; ".join(sorted(set(m for (_pc, m) in vs))[:3]) or "no explored path violates the rule"), native_py=NATIVE.get("checker")))
    obs.append(Obligation("witness: builder scripts explored", [], [], "false" if n >= 8 else "true", fnames, expect="sat", note="%d built caches inspected" % n))
    return obs, dict(models=["clone / clone_from / take as value copies"], inlined=fnames)


# ---- the read-only stack: ReadOnlyCache::{get, touch}::doit (bounded unrolling of the scan) ---------------------------
MAX_LEVELS = 3


def readonly_glue(funcs, text):
    viol = {}
    decls = []
    fnames = []
    counts = {}

    def bad(rule, p, msg):
        viol.setdefault(rule, []).append((p["pc"], msg))

    def m_iter(ex, args, pc):
        return [([], ("adt", "SliceIter", 0, {0: ("opaque", "LEVELS", "list"), 1: ("int", "0", 64, False)}))]

    def m_next(ex, args, pc):
        it = ex.project(args[0], ("deref",))
        pos = int(it[3][1][1])
        more = ex.fresh_bool("more_levels_%d" % pos)
        outs = [(["(not %s)" % more[1]], ("adt", "Option", 0, {}))]
        if pos < MAX_LEVELS:
            lvl = ("ref", [("opaque", "LEVEL%d" % pos, "Box<dyn ReadSide>")])
            newit = ("adt", "SliceIter", 0, {0: it[3][0], 1: ("int", str(pos + 1), 64, False)})
            outs.append(([more[1]], ("adt", "Option", 1, {0: lvl}), args[0], newit))
        return outs

    def m_as_mut(ex, args, pc):
        v = ex.project(args[0], ("deref",)) if args[0][0] == "ref" else args[0]
        if v[0] != "adt":
            raise mir.MirError("Option::as_mut of a non-adt")
        return [([], v)]

    models = {r"^core::slice::<impl \[.*\]>::iter$": m_iter, r"as IntoIterator>::into_iter$": lambda ex, a, pc: [([], a[0])],
              r"^<std::slice::Iter<.*> as Iterator>::next$": m_next, r"^Option::<.*>::as_mut$": m_as_mut,
              r"^<Box<dyn ReadSide> as Deref>::deref$": lambda ex, a, pc: [([], a[0])]}
    gname = [k for k in funcs if re.search(r"^readonly::<impl .*>::get::doit$", k)]
    tname = [k for k in funcs if re.search(r"^readonly::<impl .*>::touch::doit$", k)]
    if len(gname) != 1 or len(tname) != 1:
        raise mir.MirError("readonly::ReadOnlyCache::{get,touch}::doit not found uniquely in the MIR dump")
    fnames = [gname[0], tname[0]]
    for ck in (True, False):
        run = Run(funcs, inline=lambda n: False, extra_models=models)
        chk = ("ref", [("adt", "Option", 1, {0: ("opaque", "CHECKER", "Arc<dyn Fn>")}) if ck else ("adt", "Option", 0, {})])
        res = run.ex.run(gname[0], [("ref", [("opaque", "LEVELS", "slice")]), chk, ("opaque", "KEY", "Key")])
        decls += run.ex.decls
        for p in run.paths(res):
            counts["get"] = counts.get("get", 0) + 1
            evs = p["events"]
            ok = p["rid"][1] == 0
            ret = p["rid"][2][0] if p["rid"][2] else None
            for (e, o) in evs:
                if o["label"] == "err":
                    if ok or ret != o["id"]:
                        bad("errors", p, "read-only get: %s failed and the error is not returned" % e["kind"])
                    break
            gets = [(i, e, o) for i, (e, o) in enumerate(evs) if e["kind"] == "L_GET"]
            order = [re.sub(r"^(LEVEL\d+).*$", r"\1", str(e["args"][0])) for (_i, e, _o) in gets]
            if order != ["LEVEL%d" % k for k in range(len(order))]:
                bad("order", p, "read-only get probes %r: not registration order" % (order,))
            hits = [(i, o["id"]) for (i, _e, o) in gets if o["label"] == "ok-some"]
            checks = [(i, e, o) for i, (e, o) in enumerate(evs) if e["kind"] == "CHECK"]
            if not ok:
                continue
            first = hits[0][1] if hits else None
            want = ("Option", 1, (first,)) if first is not None else ("Option", 0, ())
            if ret != want:
                bad("order", p, "read-only get does not return the first copy found")
            if not ck:
                if checks:
                    bad("checker-off", p, "read-only get compares copies although no checker is configured")
                if hits and gets[-1][0] != hits[0][0]:
                    bad("checker-off", p, "read-only get keeps probing after the first hit although no checker is configured")
            else:
                # every later copy is compared with the first one; the first one is rewound after each comparison
                for (i, fid) in hits[1:]:
                    cs = [c for c in checks if first in list(_flat(c[1]["args"])) and fid in list(_flat(c[1]["args"]))]
                    if not cs:
                        bad("checker", p, "read-only get does not compare the first copy with a later copy")
                        continue
                    ci = cs[0][0]
                    sk = [j for j, (e, o) in enumerate(evs) if e["kind"] == "SEEK" and j > ci and o["label"] == "ok" and first in list(_flat(e["args"])) and "Start" in list(_flat(e["args"]))]
                    nxt = [c[0] for c in checks if c[0] > ci]
                    if not sk or (nxt and sk[0] > nxt[0]):
                        bad("rewind", p, "read-only get does not rewind the first copy after a comparison")
                # the scan is complete: a level is skipped only after an error
                # (on success every level up to the end of the list was probed)
                if len(gets) < MAX_LEVELS and not any("(not more_levels" in c for c in p["pc"]):
                    bad("checker", p, "read-only get stops scanning before the end of the stack")
    run = Run(funcs, inline=lambda n: False, extra_models=models)
    res = run.ex.run(tname[0], [("ref", [("opaque", "LEVELS", "slice")]), ("opaque", "KEY", "Key")])
    decls += run.ex.decls
    for p in run.paths(res):
        counts["touch"] = counts.get("touch", 0) + 1
        evs = p["events"]
        ok = p["rid"][1] == 0
        ret = p["rid"][2][0] if p["rid"][2] else None
        for (e, o) in evs:
            if o["label"] == "err":
                if ok or ret != o["id"]:
                    bad("errors", p, "read-only touch: %s failed and the error is not returned" % e["kind"])
                break
        ts = [re.sub(r"^(LEVEL\d+).*$", r"\1", str(e["args"][0])) for (e, _o) in evs if e["kind"] == "L_TOUCH"]
        if ts != ["LEVEL%d" % k for k in range(len(ts))]:
            bad("order", p, "read-only touch probes %r: not registration order" % (ts,))
        if ok and ret not in ("true", "false"):
            bad("order", p, "read-only touch does not report found / not found")
    texts = {
        "order": ("C13", "the read-only stack is scanned in registration order; get returns the first copy found, touch stops at the first level that has the key"),
        "checker": ("C14", "with a checker the scan goes on to the end and every later copy is compared with the first one"),
        "checker-off": ("C14", "without a checker the scan stops at the first hit and nothing is compared"),
        "rewind": ("C19", "the copy that is returned is rewound after every comparison"),
        "errors": ("C18", "a failing level, checker or seek fails the lookup with that error"),
    }
    obs = []
    for rule, (tags, t) in texts.items():
        vs = viol.get(rule, [])
        goal = "true" if not vs else "(not (or %s))" % " ".join("(and true %s)" % " ".join(pc) for (pc, _m) in vs[:40])
        obs.append(Obligation("%s: read-only stack: %s" % (tags, t), decls, [], goal, fnames, note=("; ".join(sorted(set(m for (_pc, m) in vs))[:3]) or "no explored path violates the rule"),
                              native_py=NATIVE_OPS.get(rule)))
    obs.append(Obligation("witness: read-only stack paths explored", [], [], "false" if counts.get("get", 0) > 10 and counts.get("touch", 0) > 3 else "true", fnames, expect="sat",
                          note="get: %d paths, touch: %d paths, up to %d levels" % (counts.get("get", 0), counts.get("touch", 0), MAX_LEVELS)))
    return obs, dict(models=["every callee uninterpreted; slice iteration unrolled up to %d levels" % MAX_LEVELS], inlined=fnames)


NATIVE_OPS = {}

NATIVE = {"actions": _with_sweep(native_actions, {"value"}), "ensure": _with_sweep(native_actions, {"value"}), "checker": _with_sweep(native_checker, {"checker"}),
          "checker-off": _with_sweep(None, {"checker", "value"}), "rewind": _with_sweep(native_rewind, {"handle", "value"}),
          "errors": _with_sweep(native_errors, {"value", "checker"}), "temp": _with_sweep(native_temp, {"temp"}), "readonly-handle": _with_sweep(native_rewind, {"handle"}),
          "flush": native_finalize_errors, "order": _with_sweep(native_actions, {"value"}), "classify": _with_sweep(native_actions, {"value"}),
          "finalize_errors": native_finalize_errors, "finalize_sync": native_finalize_errors, "finalize_mode": None}

NATIVE_OPS.update({"checker": _with_sweep(native_ops_checker, {"checker"}), "rewind": _with_sweep(native_ops_rewind, {"handle"}), "flush": native_ops_flush,
              "order": _with_sweep(None, {"value"}), "checker-off": _with_sweep(None, {"checker", "value"}), "errors": native_ops_errors})
