"""Engine M on the publication protocol's straight-line code: raw_cache::{insert_or_update,
insert_or_touch, touch, ensure_file_touched, move_to_back_of_list, set_read_only,
ensure_file_removed}, cache_dir::CacheDir::{get, touch, set, put} and sharded::{Shard::file_exists,
Cache::{get, touch, set, put}}.  Same method as smt_stack: every callee uninterpreted with each
outcome its type allows; rules over the sequence of effectful calls (callee, identities passed,
outcome) and the value returned, for every path of the MIR."""
import os
import re

from . import mir
from .smt import Obligation
from .smt_stack import Run, norm_ty, _flat, _native, _first_reproduced

# calls without an effect on the file system or on the decision being checked
PURE = re.compile(r"(::base_dir|::temp_dir|::capacity|::trigger|into_owned|PathBuf::push|Path::parent|Path::new|::expect|as Deref>::deref|as AsRef<.*>>::as_ref|::clone|"
                  r"FileTime::(now|unix_seconds|nanoseconds|from_unix_time|from_last_access_time|from_last_modification_time)|PartialOrd>::lt|"
                  r"Metadata::permissions|Permissions::set_readonly|is_absent_file_error|io::Error::kind|PartialEq>::eq|::is_ok|::is_some|::is_err|"
                  r"PathBuf::pop|Option::<.*>::(or|or_else|map|unwrap_or)$|Cow::<.*>::from|to_owned|as Borrow<.*>>::borrow|str::as_bytes|format_id|PathBuf::as_path|as From<.*>>::from)")


def short(callee):
    c = re.sub(r"^Atomic::<\w+>::", "Atomic::", callee)
    c = re.sub(r"::<.*", "", c)
    c = re.sub(r"^<(\w+) as (\w+)>::", r"\2::", c)
    if c.startswith("CacheDir::"):
        return c
    m = re.search(r"((?:Cache|Shard|FileTime|Permissions|Metadata)::\w+)$", c)
    if m:
        return m.group(1)
    return c.split("::")[-1]


def effects(p):
    """[(short name, outcome label, argument identities, result identity)] of the effectful calls of a path."""
    out = []
    for (e, o) in p["events"]:
        if PURE.search(e["callee"]):
            continue
        out.append((short(e["callee"]), o["label"], e["args"], o["id"]))
    return out


BOUNDARY = re.compile(r"(move_to_back_of_list|set_read_only|ensure_file_removed|ensure_file_touched|insert_or_update|insert_or_touch|validate_file_name|"
                      r"is_absent_file_error|maybe_cleanup|definitely_cleanup|cleanup_temp|file_exists|shard_ids|sort_by_load|other_shard_id|random_shard_id|"
                      r"Cache::shard|replace_shard|update_estimate|maintain|CacheDir::(get|set|put|touch|ensure_temp_dir)|prune|^touch|raw_cache::touch|::event|format_id)")


def helper_inline(funcs, current, callee):
    """Crate-local helpers introduced by a refactoring are looked through; the protocol's own steps are not."""
    if BOUNDARY.search(callee):
        return False
    hits = mir.find_function(funcs, callee)
    return len(hits) == 1 and hits[0] != current


BLOCKING = re.compile(r"(::lock|try_lock|lock_shared|thread::sleep|yield_now|thread::park|Condvar|Mutex|RwLock|flock|::wait\b|recv\b)")
EXPLORED = []   # (name, Function, paths) of every function explored in this unit run


def has_back_edge(f):
    """True when the function's control-flow graph (normal edges, unwind edges left out) contains a cycle."""
    succ = {}
    for bb, (_st, t) in f.blocks.items():
        t2 = re.sub(r"unwind: bb\d+", "", t)
        succ[bb] = re.findall(r"\b(bb\d+)\b", t2)
    state = {}

    def dfs(b):
        state[b] = 1
        for n in succ.get(b, []):
            if state.get(n) == 1:
                return True
            if n not in state and n in succ and dfs(n):
                return True
        state[b] = 2
        return False
    import sys
    sys.setrecursionlimit(10000)
    return "bb0" in succ and dfs("bb0")


def explore(funcs, pattern, args=None, inline=None, models=None):
    names = [k for k in funcs if re.search(pattern, k)]
    if len(names) != 1:
        raise mir.MirError("function %s not found uniquely in the MIR dump (%r)" % (pattern, names[:4]))
    name = names[0]
    f = funcs[name]
    run = Run(funcs, inline=inline or (lambda n: helper_inline(funcs, name, n)), extra_models=models)
    if args is None:
        args = []
        for (n, t) in f.args:
            t = norm_ty(t)
            v = ("opaque", "ARG" + n, t)
            if t.startswith("&"):
                v = ("ref", [v])
            args.append(v)
    if has_back_edge(f):
        # a loop where straight-line code is expected: reported by the non-blocking rule, not unrolled
        EXPLORED.append((name, f, [dict(pc=[], rv=None, rid=None, events=[], drops=[])]))
        return name, run, []
    res = run.ex.run(name, args)
    paths = run.paths(res)
    EXPLORED.append((name, f, paths))
    return name, run, paths


def errors_returned(p, swallow=lambda eff, i: False):
    """The first failing effectful call's error is what is returned (unless `swallow` says it is absorbed)."""
    ok = p["rid"][1] == 0 if isinstance(p["rid"], tuple) and p["rid"][0] == "Result" else True
    ret = p["rid"][2][0] if isinstance(p["rid"], tuple) and p["rid"][0] == "Result" and p["rid"][2] else None
    eff = effects(p)
    for i, (n, lab, a, rid) in enumerate(eff):
        if lab == "err" and not swallow(eff, i):
            if ok or ret != rid:
                return "%s failed and its error is not what is returned" % n
            return None
    return None


def proto_glue(funcs, text):
    del EXPLORED[:]
    viol = {}
    decls = []
    fnames = []
    npaths = {}
    extra = []

    def bad(rule, p, msg):
        viol.setdefault(rule, []).append((p["pc"], msg))

    def ok_of(p):
        return p["rid"][1] == 0

    # ---- raw_cache::insert_or_update -----------------------------------------------------------------
    name, run, paths = explore(funcs, r"^insert_or_update::run$")
    fnames.append("raw_cache::" + name)
    decls += run.ex.decls
    npaths[name] = len(paths)
    for p in paths:
        eff = effects(p)
        seq = [(n, lab) for (n, lab, _a, _i) in eff]
        want = [("move_to_back_of_list", "ok"), ("set_read_only", "ok"), ("rename", "ok"), ("ensure_file_removed", "ok")]
        names = [n for (n, _l) in seq]
        if names != [n for (n, _l) in want][:len(names)]:
            bad("update", p, "insert_or_update issues %r" % (names,))
        elif ok_of(p) and seq != want:
            bad("update", p, "insert_or_update succeeds after %r" % (seq,))
        else:
            for (n, lab, a, _i) in eff:
                tgt = ["ARG_1", "ARG_2"] if n == "rename" else ["ARG_1"]
                if list(a) != tgt:
                    bad("update", p, "%s is applied to %r" % (n, a))
        m = errors_returned(p)
        if m:
            bad("errors", p, "insert_or_update: " + m)
    # ---- raw_cache::insert_or_touch ------------------------------------------------------------------
    name, run, paths = explore(funcs, r"^insert_or_touch::run$")
    fnames.append("raw_cache::" + name)
    decls += run.ex.decls
    npaths[name] = len(paths)
    for p in paths:
        eff = effects(p)
        names = [n for (n, _l, _a, _i) in eff]
        full = ["move_to_back_of_list", "set_read_only", "hard_link", "touch", "ensure_file_removed"]
        linked = [lab for (n, lab, _a, _i) in eff if n == "hard_link"]
        exp = [x for x in full if x != "touch" or (linked and linked[0] == "err")]
        if names != exp[:len(names)]:
            bad("insert", p, "insert_or_touch issues %r" % (names,))
        elif ok_of(p) and names != exp:
            bad("insert", p, "insert_or_touch succeeds after %r" % (names,))
        else:
            for (n, lab, a, _i) in eff:
                tgt = ["ARG_1", "ARG_2"] if n == "hard_link" else (["ARG_2"] if n == "touch" else ["ARG_1"])
                if list(a) != tgt:
                    bad("insert", p, "%s is applied to %r" % (n, a))
        # only AlreadyExists is absorbed (by touching the existing entry)
        kinds = [(e, o) for (e, o) in p["events"] if e["kind"] == "KINDEQ"]

        def sw(eff_, i):
            return eff_[i][0] == "hard_link" and kinds and kinds[0][1]["label"] == "true"
        m = errors_returned(p, sw)
        if m:
            bad("errors", p, "insert_or_touch: " + m)
    # ---- move_to_back_of_list: fresh entries are not marked as read (C09) --------------------------------
    name, run, paths = explore(funcs, r"^move_to_back_of_list$")
    fnames.append("raw_cache::" + name)
    decls += run.ex.decls
    npaths[name] = len(paths)
    for p in paths:
        evs = p["events"]
        st = [(e, o) for (e, o) in evs if short(e["callee"]) == "set_file_times"]
        now = [(e, o) for (e, o) in evs if short(e["callee"]) == "FileTime::now"]
        secs = [(e, o) for (e, o) in evs if short(e["callee"]) == "FileTime::unix_seconds"]
        nanos = [(e, o) for (e, o) in evs if short(e["callee"]) == "FileTime::nanoseconds"]
        mk = [(e, o) for (e, o) in evs if short(e["callee"]) == "FileTime::from_unix_time"]
        if len(st) != 1 or len(now) != 1 or not secs or not mk:
            bad("fresh", p, "move_to_back_of_list does not stamp the file once with a time derived from now")
            continue
        a = st[0][0]["args"]
        if a[0] != "ARG_1" or a[2] != now[0][1]["id"] or a[1] != mk[0][1]["id"]:
            bad("fresh", p, "move_to_back_of_list: mtime is not now, or atime is not the derived time")
            continue
        sec_term = mk[0][0]["args"][0]
        nsec_term = mk[0][0]["args"][1]
        now_s = secs[0][1]["id"]
        if nanos and nsec_term != nanos[0][1]["id"]:
            bad("fresh", p, "move_to_back_of_list: the sub-second part of atime is not that of mtime")
        # solver: atime's seconds are at least 2 s (the coarsest timestamp granularity considered) before mtime's
        extra.append(Obligation("C09: move_to_back_of_list stamps atime at least two seconds before mtime (a fresh entry never looks read, at 1 ns, 1 s or 2 s granularity)",
                                run.ex.decls, ["(>= %s (- 9223372036854775806))" % now_s, "(<= %s 9223372036854775807)" % now_s] + list(p["pc"]),
                                "(<= %s (- %s 2))" % (sec_term, now_s), ["raw_cache::move_to_back_of_list"],
                                note="atime seconds term: %s" % str(sec_term)[:120]))
        break
    # ---- touch / ensure_file_touched: reads only ever advance atime (C09, C15) ------------------------------
    for pat, rule in ((r"^touch::run$", "touch"), (r"^ensure_file_touched$", "touch")):
        name, run, paths = explore(funcs, pat)
        fnames.append("raw_cache::" + name)
        decls += run.ex.decls
        npaths[name] = len(paths)
        for p in paths:
            eff = effects(p)
            names = [n for (n, _l, _a, _i) in eff]
            if pat.startswith("^touch"):
                writes = [x for x in eff if x[0] not in ("metadata", "symlink_metadata")]
                if [x[0] for x in writes] not in ([], ["set_file_atime"]) or any(list(x[2])[0] != "ARG_1" for x in eff):
                    bad(rule, p, "raw_cache::touch issues %r: only the access time of the named file may be set" % (names,))
                if p["rid"] == ("Result", 0, ("true",)) and not writes and not [x for x in eff if x[0] in ("metadata", "symlink_metadata")]:
                    bad(rule, p, "raw_cache::touch reports presence without looking at the file")
                ab = [(e, o) for (e, o) in p["events"] if short(e["callee"]) == "is_absent_file_error"]
                m = errors_returned(p, lambda eff_, i: bool(ab) and ab[0][1]["label"] == "true")
                if m:
                    bad("errors", p, "raw_cache::touch: " + m)
            else:
                if names not in (["metadata"], ["metadata", "set_file_handle_times"]):
                    bad(rule, p, "ensure_file_touched issues %r" % (names,))
                for (n, lab, a, _i) in eff:
                    if n == "set_file_handle_times":
                        if a[0] != "ARG_1" or a[2] != ("Option", 0, ()) or a[1][1] != 1:
                            bad(rule, p, "ensure_file_touched changes more than the access time of the open file")
                m = errors_returned(p)
                if m:
                    bad("errors", p, "ensure_file_touched: " + m)
    # ---- set_read_only / ensure_file_removed -------------------------------------------------------------------
    name, run, paths = explore(funcs, r"^set_read_only$")
    fnames.append("raw_cache::" + name)
    decls += run.ex.decls
    npaths[name] = len(paths)
    for p in paths:
        eff = effects(p)
        names = [n for (n, _l, _a, _i) in eff]
        if names != ["symlink_metadata", "set_permissions"][:len(names)] or (ok_of(p) and len(names) != 2):
            bad("readonly", p, "set_read_only issues %r" % (names,))
        sr = [(e, o) for (e, o) in p["events"] if short(e["callee"]) == "Permissions::set_readonly"]
        if ok_of(p) and (not sr or sr[0][0]["args"][1] != "true"):
            bad("readonly", p, "set_read_only does not clear the write bits")
        m = errors_returned(p)
        if m:
            bad("errors", p, "set_read_only: " + m)
    name, run, paths = explore(funcs, r"^ensure_file_removed$")
    fnames.append("raw_cache::" + name)
    decls += run.ex.decls
    npaths[name] = len(paths)
    for p in paths:
        eff = effects(p)
        if [n for (n, _l, _a, _i) in eff] != ["remove_file"] or list(eff[0][2]) != ["ARG_1"]:
            bad("update", p, "ensure_file_removed issues %r" % ([n for (n, _l, _a, _i) in eff],))
        ab = [(e, o) for (e, o) in p["events"] if short(e["callee"]) == "is_absent_file_error"]
        m = errors_returned(p, lambda eff_, i: bool(ab) and ab[0][1]["label"] == "true")
        if m:
            bad("errors", p, "ensure_file_removed: " + m)

    # ---- cache_dir::CacheDir::{set, put, get, touch} -----------------------------------------------------------
    for op, ins in (("set", "insert_or_update"), ("put", "insert_or_touch")):
        name, run, paths = explore(funcs, r"^CacheDir::%s$" % op)
        fnames.append("cache_dir::" + name)
        decls += run.ex.decls
        npaths[name] = len(paths)
        for p in paths:
            eff = effects(p)
            names = [n for (n, _l, _a, _i) in eff]
            if not names or names[0] != "validate_file_name" or list(eff[0][2]) != ["ARG_2"]:
                bad("validate", p, "CacheDir::%s does not validate the name before anything else (%r)" % (op, names[:2]))
                continue
            if eff[0][1] == "err":
                if len(names) != 1:
                    bad("validate", p, "CacheDir::%s goes on after rejecting the name" % op)
                m = errors_returned(p)
                if m:
                    bad("errors", p, "CacheDir::%s: %s" % (op, m))
                continue
            exp = ["validate_file_name", "CacheDir::maybe_cleanup", ins, "create_dir_all", ins]
            if names != exp[:len(names)]:
                bad("retry", p, "CacheDir::%s issues %r" % (op, names))
                continue
            # optimistic attempt; on failure mkdir -p and exactly one retry
            if len(names) >= 3 and eff[2][1] == "ok" and len(names) > 3:
                bad("retry", p, "CacheDir::%s retries although the first attempt succeeded" % op)
            if len(names) >= 3 and eff[2][1] == "err" and len(names) == 3:
                bad("retry", p, "CacheDir::%s gives up without creating the directory and retrying" % op)
            for (n, lab, a, _i) in eff:
                if n == ins and a[0] != "ARG_3":
                    bad("retry", p, "CacheDir::%s publishes something other than the caller's file" % op)
            if ok_of(p):
                est = eff[1][3]      # maybe_cleanup's Ok payload identity: Option
                ret = p["rid"][2][0]
                want = ("Option", 1, (est,)) if eff[1][1] == "ok-some" else ("Option", 0, ())
                if ret != want:
                    bad("estimate", p, "CacheDir::%s does not return maintenance's own estimate (None when no maintenance ran)" % op)
                if eff[-1][0] != ins or eff[-1][1] != "ok":
                    bad("retry", p, "CacheDir::%s reports success although the last insertion attempt failed" % op)
            m = errors_returned(p, lambda eff_, i: eff_[i][0] == ins and i == 2)
            if m:
                bad("errors", p, "CacheDir::%s: %s" % (op, m))
    for op, what in (("get", "open"), ("touch", "touch")):
        name, run, paths = explore(funcs, r"^CacheDir::%s$" % op)
        fnames.append("cache_dir::" + name)
        decls += run.ex.decls
        npaths[name] = len(paths)
        for p in paths:
            eff = effects(p)
            names = [n for (n, _l, _a, _i) in eff]
            if not names or names[0] != "validate_file_name" or list(eff[0][2]) != ["ARG_2"]:
                bad("validate", p, "CacheDir::%s does not validate the name before anything else (%r)" % (op, names[:2]))
                continue
            if eff[0][1] == "err" and len(names) != 1:
                bad("validate", p, "CacheDir::%s goes on after rejecting the name" % op)
            exp = ["validate_file_name", "open", "ensure_file_touched"] if op == "get" else ["validate_file_name", "touch"]
            if names != exp[:len(names)]:
                bad("lookup", p, "CacheDir::%s issues %r" % (op, names))
            ab = [(e, o) for (e, o) in p["events"] if short(e["callee"]) == "is_absent_file_error"]
            m = errors_returned(p, lambda eff_, i: eff_[i][0] == "ensure_file_touched" or (eff_[i][0] == "open" and bool(ab) and ab[0][1]["label"] == "true"))
            if m:
                bad("errors", p, "CacheDir::%s: %s" % (op, m))

    # ---- sharded ----------------------------------------------------------------------------------------------------
    name, run, paths = explore(funcs, r"^sharded::<impl .*>::file_exists$")
    fnames.append("sharded::Shard::file_exists")
    decls += run.ex.decls
    npaths[name] = len(paths)
    for p in paths:
        eff = effects(p)
        names = [n for (n, _l, _a, _i) in eff]
        if [n for n in names if n not in ("metadata", "symlink_metadata", "PathBuf::pop")]:
            bad("probe", p, "Shard::file_exists issues %r: the existence probe must be a read-only stat" % (names,))
    for op in ("set", "put"):
        name, run, paths = explore(funcs, r"^sharded::<impl .*>::%s$" % op)
        fnames.append("sharded::Cache::" + op)
        decls += run.ex.decls
        npaths[name] = len(paths)
        for p in paths:
            eff = effects(p)
            names = [n for (n, _l, _a, _i) in eff]
            ids = [x for x in eff if x[0].endswith("shard_ids")]
            srt = [x for x in eff if x[0].endswith("sort_by_load")]
            mk = [x for x in eff if x[0].endswith("Cache::shard")]
            ex_ = [x for x in eff if x[0].endswith("file_exists")]
            rep = [x for x in eff if x[0].endswith("replace_shard")]
            wr = [x for x in eff if x[0] == "CacheDir::" + op]
            if not ids or not srt or names.index(srt[0][0]) < names.index(ids[0][0]) or not set(_flat(ids[0][3])) <= set(_flat(srt[0][2])):
                bad("choice", p, "sharded %s does not order the key's two shards by load" % op)
                continue
            h = srt[0][3]  # (h1, h2)
            if not isinstance(h, tuple) or len(h) != 2:
                bad("choice", p, "sharded %s: unexpected shape of the sorted pair" % op)
                continue
            h1, h2 = h
            if not wr:
                continue  # an earlier step failed? (none of the steps before the write can fail)
            iw = names.index("CacheDir::" + op)
            if not mk or list(mk[0][2])[1:] != [h2]:
                bad("choice", p, "sharded %s does not start from the more loaded shard" % op)
                continue
            if not ex_ or names.index(ex_[0][0]) > iw or mk[0][3] not in list(_flat(ex_[0][2])):
                bad("choice", p, "sharded %s writes without first checking whether the other shard already holds the key" % op)
                continue
            exists = ex_[0][1] == "true"
            target = list(_flat(wr[0][2]))
            if exists:
                if rep and names.index(rep[0][0]) < iw:
                    bad("choice", p, "sharded %s leaves the shard that already holds the key" % op)
                elif mk[0][3] not in target:
                    bad("choice", p, "sharded %s does not write to the shard that already holds the key" % op)
            else:
                if not rep or names.index(rep[0][0]) > iw or list(rep[0][2])[1:] != [h1] or rep[0][3] not in target:
                    bad("choice", p, "sharded %s does not write to the less loaded shard when the other does not hold the key" % op)
            if wr[0][1] in ("ok-some", "ok-none"):
                upd = [x for x in eff if x[0].endswith("update_estimate")]
                rnd = [x for x in eff if x[0].endswith("maintain_random_other_shard")]
                want_upd = ("Option", 1, (wr[0][3],)) if wr[0][1] == "ok-some" else ("Option", 0, ())
                if not upd or list(upd[0][2])[1:] != [h1, want_upd]:
                    bad("bookkeeping", p, "sharded %s does not record the write's own estimate for the less loaded shard" % op)
                if (wr[0][1] == "ok-some") != bool(rnd):
                    bad("bookkeeping", p, "sharded %s maintains a second shard exactly when the write itself ran maintenance: violated" % op)
            m = errors_returned(p)
            if m:
                bad("errors", p, "sharded %s: %s" % (op, m))
    for op in ("get", "touch"):
        name, run, paths = explore(funcs, r"^sharded::<impl .*>::%s$" % op)
        fnames.append("sharded::Cache::" + op)
        decls += run.ex.decls
        npaths[name] = len(paths)
        for p in paths:
            eff = effects(p)
            names = [n for (n, _l, _a, _i) in eff]
            if any(n.endswith("sort_by_load") for n in names):
                bad("probe-order", p, "sharded %s orders its probes by load" % op)
            ids = [x for x in eff if x[0].endswith("shard_ids")]
            mk = [x for x in eff if x[0].endswith("Cache::shard")]
            rep = [x for x in eff if x[0].endswith("replace_shard")]
            lk = [x for x in eff if x[0] == "CacheDir::" + op]
            if not ids or not mk or not lk or not isinstance(ids[0][3], tuple):
                bad("probe-order", p, "sharded %s: no probe" % op)
                continue
            a, b = ids[0][3]
            if list(mk[0][2])[1:] != [a] or mk[0][3] not in list(_flat(lk[0][2])):
                bad("probe-order", p, "sharded %s does not probe the primary shard first" % op)
            if len(lk) > 1:
                if not rep or list(rep[0][2])[1:] != [b] or rep[0][3] not in list(_flat(lk[1][2])):
                    bad("probe-order", p, "sharded %s does not probe the secondary shard second" % op)
                if lk[0][1] not in ("ok-none", "ok"):
                    bad("probe-order", p, "sharded %s probes the secondary shard although the primary answered" % op)
            m = errors_returned(p)
            if m:
                bad("errors", p, "sharded %s: %s" % (op, m))

    # ---- maintenance entry points (C10, C20, C05): run only when the trigger fires, absent directory is not an error ----
    name, run, paths = explore(funcs, r"^CacheDir::maybe_cleanup$")
    fnames.append("cache_dir::" + name)
    decls += run.ex.decls
    npaths[name] = len(paths)
    for p in paths:
        eff = effects(p)
        names = [n for (n, _l, _a, _i) in eff]
        ev = [x for x in eff if x[0].endswith("event")]
        dc = [x for x in eff if x[0].endswith("definitely_cleanup")]
        if not ev or names.index(ev[0][0]) != 0:
            bad("maintenance", p, "maybe_cleanup does not consult the trigger first (%r)" % (names[:2],))
            continue
        if ev[0][1] == "false" and (len(names) != 1 or p["rid"] != ("Result", 0, (("Option", 0, ()),))):
            bad("maintenance", p, "maybe_cleanup does something although the trigger did not fire (%r)" % (names,))
        if ev[0][1] == "true":
            if not dc or list(dc[0][2])[0] != "ARG_1":
                bad("maintenance", p, "maybe_cleanup does not run maintenance when the trigger fires")
            elif dc[0][1] == "ok" and p["rid"] != ("Result", 0, (("Option", 1, (dc[0][3],)),)):
                bad("maintenance", p, "maybe_cleanup does not return maintenance's estimate")
        m = errors_returned(p)
        if m:
            bad("errors", p, "maybe_cleanup: " + m)
    name, run, paths = explore(funcs, r"^CacheDir::definitely_cleanup$")
    fnames.append("cache_dir::" + name)
    decls += run.ex.decls
    npaths[name] = len(paths)
    for p in paths:
        eff = effects(p)
        names = [n for (n, _l, _a, _i) in eff]
        if names != ["prune", "CacheDir::cleanup_temp_directory"][:len(names)] or not names:
            bad("maintenance", p, "definitely_cleanup issues %r" % (names,))
            continue
        pr = eff[0]
        if list(pr[2])[0] != "ARG_2":
            bad("maintenance", p, "definitely_cleanup prunes something other than the directory it was given")
        ab = [(e, o) for (e, o) in p["events"] if short(e["callee"]) == "is_absent_file_error"]
        if pr[1] == "err" and ab and ab[0][1]["label"] == "true":
            if p["rid"] != ("Result", 0, ("0",)) or len(names) != 1:
                bad("maintenance", p, "a missing cache directory is not reported as an empty one")
        elif pr[1] == "ok":
            if len(names) != 2:
                bad("maintenance", p, "definitely_cleanup does not clean the temporary directory after pruning")
            elif eff[1][1] == "ok" and (not isinstance(pr[3], tuple) or p["rid"] != ("Result", 0, (pr[3][0],))):
                bad("maintenance", p, "definitely_cleanup does not return prune's estimate")
        m = errors_returned(p, lambda eff_, i: eff_[i][0] == "prune" and bool(ab) and ab[0][1]["label"] == "true")
        if m:
            bad("errors", p, "definitely_cleanup: " + m)
    for pat, label in ((r"^sharded::<impl .*>::maintain_random_other_shard$", "maintain_random_other_shard"), (r"^sharded::<impl .*>::force_maintain_shard$", "force_maintain_shard")):
        name, run, paths = explore(funcs, pat)
        fnames.append("sharded::Cache::" + label)
        decls += run.ex.decls
        npaths[name] = len(paths)
        for p in paths:
            eff = effects(p)
            names = [n for (n, _l, _a, _i) in eff]
            if label == "maintain_random_other_shard":
                oth = [x for x in eff if x[0].endswith("other_shard_id")]
                rnd = [x for x in eff if x[0].endswith("random_shard_id")]
                rep = [x for x in eff if x[0].endswith("replace_shard")]
                fm = [x for x in eff if x[0].endswith("force_maintain_shard")]
                if not (oth and rnd and rep and fm) or rnd[0][3] not in list(_flat(oth[0][2])) or "ARG_2_f0" not in list(_flat(oth[0][2])) \
                        or oth[0][3] not in list(_flat(rep[0][2])) or rep[0][3] not in list(_flat(fm[0][2])):
                    bad("maintenance", p, "the second shard maintained is not other_shard_id(base shard, random draw)")
            else:
                mt = [x for x in eff if x[0] == "CacheDir::maintain"]
                st_ = [x for x in eff if x[0].endswith("store")]
                if not mt or list(mt[0][2])[0] != "ARG_2":
                    bad("maintenance", p, "force_maintain_shard does not maintain the shard it was given")
                elif mt[0][1] == "ok" and (not st_ or "elem[ARG_2_f0]" not in list(_flat(st_[0][2]))):
                    bad("maintenance", p, "force_maintain_shard does not record the estimate for the shard it maintained")
            m = errors_returned(p)
            if m:
                bad("errors", p, "%s: %s" % (label, m))
    # ---- bookkeeping helpers are pure: no file-system call at all (C20: constant resource use outside maintenance) ----
    FS = re.compile(r"(read_dir|ReadDir|metadata|File::open|remove_file|rename|hard_link|create_dir|set_file|set_permissions|DirEntry)")
    for pat, label in ((r"^sharded::<impl .*>::sort_by_load$", "sort_by_load"), (r"^sharded::<impl .*>::shard_ids$", "shard_ids"),
                       (r"^sharded::<impl .*>::other_shard_id$", "other_shard_id"), (r"^sharded::<impl .*>::update_estimate$", "update_estimate")):
        try:
            name, run, paths = explore(funcs, pat)
        except mir.MirError:
            continue   # arithmetic the executor has no model for: these are decided by c12_mapping
        except Exception:
            continue
        fnames.append("sharded::Cache::" + label)
        decls += run.ex.decls
        npaths[name] = len(paths)
        for p in paths:
            fs = [e["callee"] for (e, _o) in p["events"] if FS.search(e["callee"])]
            if fs:
                bad("pure", p, "sharded::Cache::%s touches the file system (%s)" % (label, fs[0][:50]))
    for p_name, rp in (("set", None), ("put", None)):
        pass
    # ---- non-blocking (C06): finitely many steps on every path, no locking / sleeping / waiting primitive -------------
    for (nm, f_, paths_) in EXPLORED:
        if has_back_edge(f_):
            for p in paths_[:1]:
                bad("nonblocking", p, "%s contains a loop: the number of its steps is not a constant" % nm)
        for p in paths_:
            blk = [e["callee"] for (e, _o) in p["events"] if BLOCKING.search(e["callee"])]
            if blk:
                bad("nonblocking", p, "%s calls %s" % (nm, blk[0][:60]))
                break
    texts = {
        "nonblocking": ("C06", "get / touch / set / put and the publication steps below them are loop-free and call no locking, sleeping or waiting primitive (maintenance excluded)"),
        "maintenance": ("C10+C20+C05", "maintenance runs only when the trigger fires; it prunes the directory it was given, then cleans its temp directory; a missing "
                        "directory counts as empty; its estimate is returned unchanged; the extra shard maintained is other_shard_id(base, random draw)"),
        "pure": ("C20+C12", "the shard-selection and load-bookkeeping helpers never touch the file system"),
        "update": ("C01+C02+C03+C04", "insert_or_update is exactly: re-stamp the source, make it read-only, rename it over the key, remove the source name (absent is fine)"),
        "insert": ("C01+C02+C03+C04", "insert_or_touch is exactly: re-stamp the source, make it read-only, link it under the key (on AlreadyExists touch the entry instead), remove the source name"),
        "fresh": ("C09", "move_to_back_of_list stamps the file once: mtime = now, atime derived from now"),
        "touch": ("C09+C15", "raw_cache::touch / ensure_file_touched only ever set the access time of the one file they are given"),
        "readonly": ("C02+C19", "set_read_only reads the mode, clears the write bits and applies it to the same path"),
        "validate": ("C16", "CacheDir::{get,touch,set,put} validate the name before anything else and stop there when it is rejected"),
        "retry": ("C05+C18", "CacheDir::{set,put}: maintenance first, one optimistic insertion, on failure mkdir -p and exactly one retry; success only after a successful insertion of the caller's file"),
        "estimate": ("C20+C10", "CacheDir::{set,put} return maintenance's own estimate, None when no maintenance ran"),
        "lookup": ("C15+C20", "CacheDir::get opens the named file and marks it (errors of the mark ignored); CacheDir::touch touches it; nothing else"),
        "probe": ("C15+C16+C17", "Shard::file_exists is a read-only stat"),
        "choice": ("C11+C12", "sharded set/put: shards ordered by load; the other shard is always checked for the key first; the write goes to the shard that holds the key, else to the less loaded one"),
        "bookkeeping": ("C20+C10", "sharded set/put record the write's own estimate and maintain a second shard exactly when the write itself ran maintenance"),
        "probe-order": ("C12", "sharded get/touch probe the primary shard, then the secondary, in the order given by the hashes alone"),
        "errors": ("C18", "publication-protocol functions return the error of the first failing call (only the documented absent-file / AlreadyExists / first-attempt cases are absorbed)"),
    }
    obs = []
    for rule, (tags, t) in texts.items():
        vs = viol.get(rule, [])
        goal = "true" if not vs else "(not (or %s))" % " ".join("(and true %s)" % " ".join(pc) for (pc, _m) in vs[:40])
        obs.append(Obligation("%s: %s" % (tags, t), decls, [], goal, fnames, note=("; ".join(sorted(set(m for (_pc, m) in vs))[:3]) or "no explored path violates the rule"),
                              native_py=NATIVE.get(rule)))
    obs += extra
    obs.append(Obligation("witness: paths explored in every protocol function", [], [], "false" if len(npaths) >= 15 and all(npaths.values()) else "true", fnames, expect="sat",
                          note=", ".join("%s: %d" % kv for kv in sorted(npaths.items()))))
    return obs, dict(models=["every callee uninterpreted"], inlined=fnames)


# ---- native confirmation --------------------------------------------------------------------------------------------
def _sfile(path, content, inode, dirid):
    return dict(used=1, nlink=1, is_dir=0, mode=0o100444, mt_s=1000 + inode, mt_ns=0, at_s=900, at_ns=0, content=content, key_tag=0,
                complete=1, dirty=0, own=0, foreign=0, published=1, path=path, dir=dirid, slot=0, inode=inode)


def sharded_scen(code, holder=None, p=0, s=1):
    """Sharded cache under /s with 3 shards; the key's candidate shards are (p, s); `holder`: shard id holding the key."""
    dirs = [dict(id=6, path="s", readonly_root=False, shared=False)] + [dict(id=7 + 2 * k, path="s/.kismet_000%d" % k, readonly_root=False, shared=False) for k in range(3)]
    dirs.append(dict(id=20, path="x", readonly_root=False, shared=False))
    files = []
    if holder is not None:
        files.append(_sfile("s/.kismet_000%d/ka" % holder, 50, 0, 7 + 2 * holder))
    src = _sfile("x/u0", 9, 1, 20)
    src.update(mode=0o100644, published=0, own=1)
    files.append(src)
    return dict(harness="engine-M", config=dict(policy=1, gran=0, env=0, auto_sync=1, fail_at=65535, fail_errno=5, now_s=5000, now_ns=0),
                op=dict(code=code, a0=p, a1=s, a2=1000, a3=None, a4=None), dirs=dirs, files=files, calls=[], env=[], fault=None)


def plain_scen(code, present=True, fault=None):
    dirs = [dict(id=0, path="w", readonly_root=False, shared=False), dict(id=20, path="x", readonly_root=False, shared=False)]
    files = []
    if present:
        files.append(_sfile("w/ka", 50, 0, 0))
    src = _sfile("x/u0", 9, 1, 20)
    src.update(mode=0o100644, published=0, own=1)
    files.append(src)
    return dict(harness="engine-M", config=dict(policy=1, gran=0, env=0, auto_sync=1, fail_at=65535, fail_errno=5, now_s=5000, now_ns=0),
                op=dict(code=code, a0=100, a1=0, a2=0, a3=None, a4=None), dirs=dirs, files=files, calls=[], env=[], fault=fault)


def native_choice(scratch):
    """The key already sits in one candidate shard: a write must not create a second copy in the other."""
    nat, sc = _native(scratch)
    outs = []
    for code in (22, 23):
        for (p, s, holder) in ((0, 1, 1), (0, 1, 0), (1, 0, 0), (1, 0, 1)):
            outs.append(sc.o_two_copies(sharded_scen(code, holder=holder, p=p, s=s), nat, ""))
    return _first_reproduced(outs)


def native_sharded_sweep(scratch):
    """The real sharded cache against the key-value reference (C11/C12): one copy per key, set overwrites, put
    does not, the source file is consumed, lookups find the key in either candidate shard."""
    nat, sc = _native(scratch)
    devs = {"debug": [], "release": []}
    for profile in ("debug", "release"):
        for (p, s_) in ((0, 1), (1, 0), (1, 2), (2, 0)):
            for holder in (None, p, s_):
                for code in (20, 21, 22, 23):
                    scen = sharded_scen(code, holder=holder, p=p, s=s_)
                    r = sc.run_scenario(scen, nat, profile)
                    if r is None:
                        continue
                    cfg = "candidates=(%d,%d) holder=%s op=%s" % (p, s_, holder, {20: "get", 21: "touch", 22: "set", 23: "put"}[code])
                    copies = {k: v for k, v in r["after"].items() if k.endswith("/ka") and k.startswith("s/")}
                    out = r["out"]
                    msg = None
                    if out["result"] != "ok" or out["panic"]:
                        msg = "result %s %s" % (out["result"], out["panic"] or "")
                    elif code == 20:
                        got = (out["handle"] or {}).get("content")
                        if (holder is None) != (got is None) or (holder is not None and got != "value-50"):
                            msg = "get returned %r" % (got,)
                    elif code == 21:
                        if out["value"] != ("true" if holder is not None else "false"):
                            msg = "touch returned %r" % (out["value"],)
                    else:
                        want = "value-9" if (code == 22 or holder is None) else "value-50"
                        if len(copies) != 1:
                            msg = "%d copies of the key: %r" % (len(copies), sorted(copies))
                        elif list(copies.values())[0].get("content") != want:
                            msg = "the key holds %r, expected %r" % (list(copies.values())[0].get("content"), want)
                        elif holder is not None and list(copies)[0] != "s/.kismet_000%d/ka" % holder:
                            msg = "the key moved from shard %d to %s" % (holder, list(copies)[0])
                        elif "x/u0" in r["after"]:
                            msg = "the source file was not consumed"
                    if msg and len(devs[profile]) < 5:
                        devs[profile].append("%s: %s" % (cfg, msg))
    both = devs["debug"] and devs["release"]
    return dict(reproduced=bool(both), detail=("debug: " + devs["debug"][0] + "; release: " + devs["release"][0]) if both else "the sharded cache agrees with the key-value reference natively",
                signature=dict(op="sharded-sweep", what="deviation from the key-value reference of the sharded cache"), deviations=devs)


def native_choice2(scratch):
    r = native_choice(scratch)
    if r.get("reproduced"):
        return r
    return native_sharded_sweep(scratch)


def native_estimate(scratch):
    """Writes into missing shard directories must not trigger maintenance (no directory listing)."""
    nat, sc = _native(scratch)
    bad = []
    for code in (22, 23):
        scen = sharded_scen(code, holder=None)
        scen["dirs"] = [d for d in scen["dirs"] if not d["path"].startswith("s/")]
        for profile in ("debug", "release"):
            r = sc.run_scenario(scen, nat, profile, strace=[])
            if r is None:
                continue
            lists = [ln for ln in (r["strace"] or []) if "getdents" in ln or ("O_DIRECTORY" in ln and "openat" in ln)]
            if lists:
                bad.append((profile, "a write into an empty cache lists directories: %s" % lists[0][:120]))
    return sc.verdict(bad, sharded_scen(22), "maintenance triggered by a write that created its directory", "no directory is listed natively")


def native_protocol(scratch):
    """Publication happens through chmod + rename/link only: the file is read-only before it becomes visible, and a
    rename/link that fails with EXDEV does not make the library write inside the cache directory by other means."""
    nat, sc = _native(scratch)
    outs = []
    for code in (3, 4):
        outs.append(sc.o_readonly_before_visible(plain_scen(code, present=False), nat, ""))
    for code, kind in ((3, "rename"), (4, "link")):
        scen = plain_scen(code, present=False, fault=dict(kind=kind, occurrence=1, errno=18))
        bad = []
        for profile in ("debug", "release"):
            r = sc.run_scenario(scen, nat, profile, strace=[], with_fault=True)
            if r is None:
                continue
            new = [p_ for p_ in r["after"] if p_.startswith("w/") and p_ not in r["before"] and "/.kismet_temp" not in p_ and p_ != "w/ka"]
            created = [ln for ln in (r["strace"] or []) if "O_CREAT" in ln and "/w/" in ln and "/.kismet_temp/" not in ln and "O_DIRECTORY" not in ln]
            if new or created:
                bad.append((profile, "after a failed %s: new entries %r, files created in place: %s" % (kind, new, [c[:90] for c in created[:2]])))
        outs.append(sc.verdict(bad, scen, "publication outside the rename/link protocol", "failed publication leaves the directory alone natively"))
    return _first_reproduced(outs)


def native_put_atomic(scratch):
    """put's presence test and its publication are one step: a peer that publishes the key right before our
    publishing call (whatever system call that is) must win - put never overwrites."""
    import shutil
    import subprocess
    import tempfile
    import time
    nat, sc = _native(scratch)
    bad = []
    tried = []
    for profile in ("debug", "release"):
        scen = plain_scen(4, present=False)
        root0 = nat.sandbox()
        try:
            nat.materialise(root0, scen)
            calls = sc.full_strace(nat, sc.op_args(scen, root0), profile)
        finally:
            shutil.rmtree(root0, ignore_errors=True)
        begin = next((i for i, (n, ln) in enumerate(calls) if "kvreplay-marker-begin" in ln), None)
        if begin is None:
            continue
        pub = next((i for i, (n, ln) in enumerate(calls) if i > begin and n in ("rename", "renameat", "renameat2", "link", "linkat") and "/w/ka" in ln), None)
        if pub is None or pub == 0:
            continue
        stop_name = calls[pub - 1][0]
        count = sum(1 for (nm, _l) in calls[:pub] if nm == stop_name)
        root = nat.sandbox()
        try:
            nat.materialise(root, scen)
            args = sc.op_args(scen, root)
            slog = tempfile.mktemp(prefix="kvr-strace-")
            cmd = ["strace", "-f", "-y", "-o", slog, "-e", "trace=%file,%desc", "-e", "inject=%s:signal=SIGSTOP:when=%d" % (stop_name, count), nat.bins[profile]] + [str(a) for a in args]
            p_ = subprocess.Popen(cmd, stdout=subprocess.PIPE, stderr=subprocess.PIPE)
            t0 = time.time()
            stopped = False
            while time.time() - t0 < 30 and p_.poll() is None:
                try:
                    txt = open(slog, errors="replace").read()
                except OSError:
                    txt = ""
                m = re.search(r"^(\d+)\s+--- stopped by SIGSTOP ---", txt, re.M)
                if m:
                    sc.apply_env_action(root, dict(action="publish", path="w/ka", file=dict(content=100)))
                    os.kill(int(m.group(1)), 18)
                    stopped = True
                    break
                time.sleep(0.02)
            if not stopped and p_.poll() is None:
                p_.kill()
            out, _e = p_.communicate(timeout=60)
            if os.path.exists(slog):
                os.remove(slog)
            after = sc.snapshot(root)
            got = after.get("w/ka", {}).get("content")
            tried.append((profile, stopped, got))
            if stopped and got != "value-100":
                bad.append((profile, "a peer published the key right before our %s; afterwards the key holds %r: put overwrote it" % (calls[pub][0], got)))
        finally:
            shutil.rmtree(root, ignore_errors=True)
    r = sc.verdict(bad, plain_scen(4), "put overwrote a value published just before its own publication step", "put lost to the peer natively: %r" % (tried,))
    return r


def native_fresh(scratch):
    nat, sc = _native(scratch)
    return _first_reproduced([sc.o_fresh_not_accessed(plain_scen(3, present=False), nat, ""), sc.o_fresh_not_accessed(plain_scen(4, present=False), nat, "")])


def native_touch(scratch):
    from .smt_stack import mk_scen
    nat, sc = _native(scratch)
    return _first_reproduced([sc.o_readonly_root_mutated(mk_scen(1, w=None, r=50), nat, ""), sc.o_readonly_root_mutated(mk_scen(0, w=None, r=50), nat, "")])


def native_retry(scratch):
    """A peer creates the missing cache directory right before our own mkdir: the write must still succeed."""
    nat, sc = _native(scratch)
    outs = []
    for code, pub in ((3, "rename"), (4, "link")):
        scen = plain_scen(code, present=False)
        scen["dirs"] = [d for d in scen["dirs"] if d["path"] != "w"]
        scen["calls"] = [dict(n=1, kind="utimes", dir=20, slot=0), dict(n=2, kind="stat", dir=20, slot=0), dict(n=3, kind="chmod", dir=20, slot=0),
                         dict(n=4, kind=pub, dir=0, slot=0), dict(n=5, kind="mkdir", dir=0, slot=255)]
        scen["env"] = [dict(before_call=5, dir=0, slot=255, action="mkdir", path="w")]
        outs.append(sc.o_env_no_error(scen, nat, ""))
    return _first_reproduced(outs)


def native_probe(scratch):
    nat, sc = _native(scratch)
    outs = []
    for code in (22, 23):
        scen = sharded_scen(code, holder=1)
        try:
            outs.append(sc.o_invalid_name_modifies(scen, nat, ""))
        except Exception:
            outs.append(None)
    return _first_reproduced(outs)


NATIVE = {"pure": native_estimate, "choice": native_choice2, "probe-order": native_sharded_sweep, "estimate": native_estimate, "bookkeeping": native_estimate, "update": native_protocol, "insert": lambda scratch: _first_reproduced([native_protocol(scratch), native_put_atomic(scratch)]),
          "readonly": native_protocol, "probe": native_probe, "fresh": native_fresh, "touch": native_touch, "retry": native_retry}
