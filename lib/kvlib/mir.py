"""Engine M, part 1: a small symbolic executor for rustc's textual MIR (-Zunpretty=mir).

Scope: loop-free (or shallowly looping) functions over integers, bools, tuples and structs,
with calls either inlined (crate functions found in the same dump), modelled (a handful of
core/std functions with one-line semantics, listed in MODELS and reported in the evidence), or
left uninterpreted.  Machine integers are encoded as mathematical integers with explicit
range constraints and explicit mod-2^k / div semantics (DESIGN.md §1: bit-blasting cannot
decide the 64x64->128-bit products).

Values are Python objects:
  ("int", smt_term, bits, signed) | ("bool", smt_term) | ("tuple", [values]) |
  ("adt", name, variant, {field: value}) | ("ref", cell) | ("opaque", smt_term, sort_name)
Cells are mutable boxes (lists of one value) so that references alias.
"""
import re
import itertools

INT_TYPES = {"u8": (8, False), "u16": (16, False), "u32": (32, False), "u64": (64, False),
             "u128": (128, False), "usize": (64, False), "i8": (8, True), "i16": (16, True),
             "i32": (32, True), "i64": (64, True), "i128": (128, True), "isize": (64, True)}


COUNTERS = {"blocks": 0, "edges": 0}   # basic blocks executed / successor edges followed, all executors


class MirError(Exception):
    pass


class NeedsConcrete(Exception):
    """Raised by a model that needs a literal where the path has a symbolic term: the path is set
    aside and its infeasibility under the caller's assumptions becomes an obligation."""
    pass


# ------------------------------------------------------------------------------------------
# parsing
class Function:
    def __init__(self, name, sig, body_lines):
        self.name = name
        self.sig = sig
        self.blocks = {}      # bbN -> (statements[str], terminator str)
        self.locals = {}      # _N -> type string
        self.args = []        # [(name, type)]
        self.ret = None
        self._parse(body_lines)

    def _parse(self, lines):
        m = re.match(r"fn (.*?)\((.*)\) -> (.*) \{$", self.sig)
        if not m:
            m2 = re.match(r"fn (.*?)\((.*)\) \{$", self.sig)
            if not m2:
                raise MirError("cannot parse signature " + self.sig)
            argstr, self.ret = m2.group(2), "()"
        else:
            argstr, self.ret = m.group(2), m.group(3)
        for a in split_top(argstr, ","):
            a = a.strip()
            if a:
                n, t = a.split(":", 1)
                self.args.append((n.strip(), t.strip()))
                self.locals[n.strip()] = t.strip()
        cur = None
        stmts = []
        for ln in lines:
            s = ln.strip()
            m = re.match(r"let (?:mut )?(_\d+): (.*);$", s)
            if m:
                self.locals[m.group(1)] = m.group(2)
                continue
            m = re.match(r"(bb\d+)(?: \(cleanup\))?: \{$", s)
            if m:
                cur = m.group(1)
                stmts = []
                continue
            if cur is not None:
                if s == "}":
                    if stmts:
                        self.blocks[cur] = (stmts[:-1], stmts[-1])
                    cur = None
                elif s:
                    stmts.append(s)


def split_top(s, sep):
    """split on `sep` at nesting depth 0 of () [] {} <>  (-> is not a bracket)."""
    out, depth, cur = [], 0, []
    i = 0
    while i < len(s):
        c = s[i]
        if c in "([{":
            depth += 1
        elif c in ")]}":
            depth -= 1
        elif c == "<":
            depth += 1
        elif c == ">" and (i == 0 or s[i - 1] != "-") and depth > 0:
            depth -= 1
        if c == sep and depth == 0:
            out.append("".join(cur))
            cur = []
        else:
            cur.append(c)
        i += 1
    out.append("".join(cur))
    return out


def parse_simple_consts(text):
    """`const plain::MAINTENANCE_SCALE: usize = const 3_usize;` -> {"plain::MAINTENANCE_SCALE": "3_usize"}"""
    return {m.group(1): m.group(2) for m in re.finditer(r"^const (\S+): \w+ = const (-?\d+_\w+);$", text, re.M)}


def parse_mir(text):
    """-> {name: Function}; the first (runtime) body wins over the 'MIR FOR CTFE' duplicate."""
    Executor.simple_consts = parse_simple_consts(text)
    funcs = {}
    lines = text.splitlines()
    i = 0
    while i < len(lines):
        ln = lines[i]
        if ln.startswith("fn ") and ln.rstrip().endswith("{"):
            sig = ln.rstrip()
            j = i + 1
            body = []
            while j < len(lines) and lines[j] != "}":
                body.append(lines[j])
                j += 1
            name = re.match(r"fn (.*?)\(", sig).group(1)
            if name not in funcs:
                try:
                    funcs[name] = Function(name, sig, body)
                except MirError:
                    pass
            i = j
        i += 1
    return funcs


TYPE_MODULE = {"MultiplicativeHash": "multiplicative_hash", "PeriodicTrigger": "trigger",
               "sharded::Cache": "sharded", "plain::Cache": "plain", "Update": "second_chance",
               "stack::Cache": "stack", "ReadOnlyCacheBuilder": "readonly", "ReadOnlyCache": "readonly", "CacheBuilder": "stack"}


def find_function(funcs, callee):
    """Locate a crate function from the way a call site (or a caller of this API) names it:
    `<impl at file:line>` segments are dropped, and `Type::method` is mapped to `module::method`."""
    callee = re.sub(r"::<[^<>]*(?:<[^<>]*>[^<>]*)*>", "", callee)  # turbofish
    norm = {}
    for n in funcs:
        norm.setdefault(normalise_callee(n), []).append(n)
    cands = [callee]
    for ty, mod in TYPE_MODULE.items():
        if callee.startswith(ty + "::"):
            cands.append(mod + "::" + callee[len(ty) + 2:])
    for c in cands:
        if c in norm and len(norm[c]) == 1:
            return norm[c]
    # unique suffix match
    for c in cands:
        hits = [v[0] for k, v in norm.items() if (k == c or k.endswith("::" + c)) and len(v) == 1]
        if len(hits) == 1:
            return hits
    return []


# ------------------------------------------------------------------------------------------
# SMT term helpers (integer encoding)
def two(bits):
    return str(1 << bits)


def s_and(*xs):
    xs = [x for x in xs if x != "true"]
    if not xs:
        return "true"
    if len(xs) == 1:
        return xs[0]
    return "(and %s)" % " ".join(xs)


def s_not(x):
    if x == "true":
        return "false"
    if x == "false":
        return "true"
    return "(not %s)" % x


def s_ite(c, a, b):
    if c == "true":
        return a
    if c == "false":
        return b
    return "(ite %s %s %s)" % (c, a, b)


def lit(n):
    return str(n) if n >= 0 else "(- %d)" % (-n)


def mk_int(term, bits, signed=False):
    return ("int", term, bits, signed)


def mk_bool(term):
    return ("bool", term)


class Path:
    """One execution path: path condition, declarations, obligations discharged along it."""

    def __init__(self, ex):
        self.ex = ex
        self.pc = []

    def clone(self):
        p = Path(self.ex)
        p.pc = list(self.pc)
        return p


class Executor:
    def __init__(self, funcs, models=None, inline=None, max_depth=6):
        self.funcs = funcs
        self.decls = []          # (name, sort)
        self.range_asserts = []  # global facts about declared constants
        self.obligations = []    # (description, pc_terms, cond_term, location)
        self.counter = itertools.count()
        self.models = dict(MODELS)
        self.pc_stack = []
        if models:
            self.models.update(models)
        self.inline = inline or (lambda name: True)
        self.calls_seen = []     # (callee, args) for uninterpreted calls
        self.dropped_paths = []  # path conditions of paths set aside by NeedsConcrete
        self.models_used = set()
        self.inlined = set()
        self.max_depth = max_depth

    # ---- fresh symbols --------------------------------------------------------------------
    pc_stack = ()

    def abs_pc(self, pc):
        """Path condition from the outermost function's entry (inlined callees run with a relative one)."""
        out = []
        for p in self.pc_stack:
            out += p
        return out + list(pc)

    def fresh_int(self, hint, bits, signed=False):
        name = "%s_%d" % (re.sub(r"\W", "_", hint), next(self.counter))
        self.decls.append((name, "Int"))
        lo = -(1 << (bits - 1)) if signed else 0
        hi = (1 << (bits - 1)) - 1 if signed else (1 << bits) - 1
        self.range_asserts.append("(and (<= %s %s) (<= %s %s))" % (lit(lo), name, name, lit(hi)))
        return mk_int(name, bits, signed)

    def fresh_bool(self, hint):
        name = "%s_%d" % (re.sub(r"\W", "_", hint), next(self.counter))
        self.decls.append((name, "Bool"))
        return mk_bool(name)

    def fresh_of_type(self, hint, ty):
        ty = ty.strip()
        if ty in INT_TYPES:
            b, s = INT_TYPES[ty]
            return self.fresh_int(hint, b, s)
        if ty == "bool":
            return self.fresh_bool(hint)
        if ty.startswith("(") and ty.endswith(")") and ty != "()":
            return ("tuple", [self.fresh_of_type("%s_%d" % (hint, i), t) for i, t in enumerate(split_top(ty[1:-1], ","))])
        if ty == "()":
            return ("tuple", [])
        name = "%s_%d" % (re.sub(r"\W", "_", hint), next(self.counter))
        self.decls.append((name, "Int"))  # opaque values are abstract identities
        return ("opaque", name, ty)

    # ---- running ---------------------------------------------------------------------------
    def run(self, fname, args, depth=0):
        """Symbolically execute function `fname` on argument values.
        Returns a list of (pc_terms, return_value, final_env)."""
        f = self.funcs[fname]
        results = []
        env0 = {}
        for (n, _t), v in zip(f.args, args):
            env0[n] = [v]
        work = [("bb0", env0, [])]
        steps = 0
        while work:
            bb, env, pc = work.pop()
            steps += 1
            if steps > getattr(self, "max_steps", 4000):
                raise MirError("path explosion in " + fname)
            stmts, term = f.blocks[bb]
            try:
                for s in stmts:
                    self.exec_stmt(f, s, env, pc)
                nxts = self.exec_term(f, term, env, pc, depth)
            except NeedsConcrete:
                self.dropped_paths.append(list(pc))
                continue
            COUNTERS["blocks"] += 1
            COUNTERS["edges"] += len(nxts)
            for nxt in nxts:
                if nxt[0] == "ret":
                    results.append((nxt[2], nxt[1], env))
                else:
                    work.append((nxt[1], nxt[2], nxt[3]))
        return results

    def copy_env(self, env):
        # cells referenced by refs must stay shared *within* a path but be copied across forks:
        # deep-copy with a memo so that aliasing is preserved.
        memo = {}

        def cp_cell(c):
            if id(c) in memo:
                return memo[id(c)]
            n = [None]
            memo[id(c)] = n
            n[0] = cp_val(c[0])
            return n

        def cp_val(v):
            if v is None:
                return None
            k = v[0]
            if k == "ref":
                return ("ref", cp_cell(v[1])) + tuple(v[2:])
            if k == "tuple":
                return ("tuple", [cp_val(x) for x in v[1]])
            if k == "adt":
                return ("adt", v[1], v[2], {a: cp_val(b) for a, b in v[3].items()})
            return v

        return {n: cp_cell(c) for n, c in env.items()}

    # ---- places ------------------------------------------------------------------------------
    def parse_place(self, s):
        """-> (base local, [projections]); projections: ("deref",) | ("field", k) | ("downcast", Variant)"""
        s = s.strip()
        projs = []
        while True:
            m = re.match(r"^\((.*)\.(\d+): (.*)\)$", s)
            if m and balanced(m.group(1)):
                projs.append(("field", int(m.group(2))))
                s = m.group(1).strip()
                continue
            m = re.match(r"^\(\*(.*)\)$", s)
            if m and balanced(m.group(1)):
                projs.append(("deref",))
                s = m.group(1).strip()
                continue
            m = re.match(r"^\((.*) as (\w+)\)$", s)
            if m and balanced(m.group(1)):
                projs.append(("downcast", m.group(2)))
                s = m.group(1).strip()
                continue
            break
        if not re.match(r"^_\d+$", s):
            raise MirError("unsupported place: " + s)
        return s, list(reversed(projs))

    def read_place(self, f, s, env):
        base, projs = self.parse_place(s)
        if base not in env:
            raise MirError("read of unassigned local %s in %s" % (base, f.name))
        v = env[base][0]
        for p in projs:
            v = self.project(v, p)
        return v

    def project(self, v, p):
        if p[0] == "deref":
            if v[0] == "opaque" and getattr(self, "opaque_fields", False):
                return ("opaque", v[1] + "_p", "pointee of " + str(v[2])[:40])
            if v[0] != "ref":
                raise MirError("deref of non-reference %r" % (v,))
            inner = v[1][0]
            for q in v[2:]:
                inner = self.project(inner, q)
            return inner
        if p[0] == "field":
            if v[0] == "tuple":
                return v[1][p[1]]
            if v[0] == "adt":
                return v[3][p[1]]
            if v[0] == "opaque" and getattr(self, "opaque_fields", False):
                # a field of an abstract value is an abstract value named after it
                return ("opaque", "%s_f%s" % (v[1], p[1]), "field of " + str(v[2])[:40])
            raise MirError("field of %r" % (v[0],))
        if p[0] == "refto":
            return v
        if p[0] == "downcast":
            if v[0] == "adt":
                return v
            raise MirError("downcast of %r" % (v[0],))
        raise MirError("projection " + repr(p))

    def write_place(self, f, s, env, val):
        base, projs = self.parse_place(s)
        if not projs:
            if base in env:
                env[base][0] = val
            else:
                env[base] = [val]
            return
        # write through projections: rebuild the containing value
        cell = env[base]

        def upd(v, ps):
            if not ps:
                return val
            p = ps[0]
            if p[0] == "deref":
                tgt = v[1]
                if len(v) > 2:
                    tgt[0] = upd_path(tgt[0], list(v[2:]) + ps[1:])
                else:
                    tgt[0] = upd(tgt[0], ps[1:])
                return v
            if p[0] == "field":
                if v[0] == "tuple":
                    items = list(v[1])
                    items[p[1]] = upd(items[p[1]], ps[1:])
                    return ("tuple", items)
                if v[0] == "adt":
                    fs = dict(v[3])
                    fs[p[1]] = upd(fs[p[1]], ps[1:])
                    return ("adt", v[1], v[2], fs)
            raise MirError("write through " + repr(p))

        def upd_path(v, ps):
            return upd(v, ps)

        cell[0] = upd(cell[0], projs)

    # ---- operands & rvalues --------------------------------------------------------------------
    def operand(self, f, s, env):
        s = s.strip()
        m = re.match(r"^(copy|move) (.*)$", s)
        if m:
            return self.read_place(f, m.group(2), env)
        m = re.match(r"^no_retag (copy|move) (.*)$", s)
        if m:
            return self.read_place(f, m.group(2), env)
        if s.startswith("const "):
            return self.constant(s[6:].strip())
        if re.match(r"^_\d+$", s) or s.startswith("("):
            return self.read_place(f, s, env)
        if re.match(r"^[A-Z]\w*$", s):
            # a field-less enum variant written bare (e.g. `InvalidInput`)
            return ("adt", s, s, {})
        if "::" in s and not s.startswith(("copy ", "move ")):
            # a function item (zero-sized) passed as an argument
            return ("opaque", "0", "fn " + s)
        raise MirError("unsupported operand: " + s)

    def constant(self, c):
        m = re.match(r"^(-?\d+)_(\w+)$", c)
        if m and m.group(2) in INT_TYPES:
            b, sg = INT_TYPES[m.group(2)]
            return mk_int(lit(int(m.group(1))), b, sg)
        if c == "true":
            return mk_bool("true")
        if c == "false":
            return mk_bool("false")
        m = re.match(r"^core::num::<impl (\w+)>::MAX$", c)
        if m:
            b, sg = INT_TYPES[m.group(1)]
            return mk_int(lit((1 << (b - 1)) - 1 if sg else (1 << b) - 1), b, sg)
        if c in self.const_values:
            return self.const_values[c]
        if c in self.simple_consts:
            return self.constant(self.simple_consts[c])
        if "::" in c:
            # `module::NAME` at the use site, `NAME` (or `other::module::NAME`) at the definition
            last = c.split("::")[-1]
            hits = [k for k in self.simple_consts if k == last or k.endswith("::" + last)]
            if len(hits) == 1:
                return self.constant(self.simple_consts[hits[0]])
        if c == "()":
            return ("tuple", [])
        if c.startswith("ZeroSized"):
            return ("opaque", "0", c)
        if c.startswith('"'):
            return ("opaque", "0", "str")
        if re.match(r"^[A-Za-z_][\w:]*$", c) and c.split("::")[-1].isupper():
            # a named constant of a non-integer type (e.g. a string): an opaque identity
            return ("opaque", "0", c)
        if re.search(r"::promoted\[\d+\]$", c):
            return ("ref", [("opaque", "0", "promoted")])
        raise MirError("unsupported constant: " + c)

    const_values = {}
    simple_consts = {}

    def rvalue(self, f, s, env, pc, dst_ty=None):
        s = s.strip()
        m = re.match(r"^(.*) as .* \((Transmute|PtrToPtr|PointerCoercion\(.*\))\)$", s)
        if m and getattr(self, "opaque_fields", False):
            return self.operand(f, m.group(1), env)
        m = re.match(r"^(.*) as (\w+) \(IntToInt\)$", s)
        if m:
            v = self.operand(f, m.group(1), env)
            b, sg = INT_TYPES[m.group(2)]
            if v[0] == "bool":
                return mk_int(s_ite(v[1], "1", "0"), b, sg)
            return self.int_cast(v, b, sg)
        m = re.match(r"^(\w+)\((.*)\)$", s)
        if m and m.group(1) in BINOPS:
            a, b = [self.operand(f, x, env) for x in split_top(m.group(2), ",")]
            return self.binop(m.group(1), a, b)
        m = re.match(r"^Not\((.*)\)$", s)
        if m:
            v = self.operand(f, m.group(1), env)
            if v[0] == "bool":
                return mk_bool(s_not(v[1]))
            raise MirError("Not on int")
        m = re.match(r"^PtrMetadata\((.*)\)$", s)
        if m:
            # length of a slice behind a fat pointer: an unknown non-negative size
            return self.fresh_int("len", 64)
        m = re.match(r"^&(?:mut )?\(\*(_\d+)\)\[(_\d+)\]$", s)
        if m and getattr(self, "opaque_fields", False):
            idx = self.read_place(f, m.group(2), env)
            return ("ref", [("opaque", "elem[%s]" % (idx[1] if len(idx) > 1 else "?"), "slice element")])
        m = re.match(r"^&(?:mut )?(.*)$", s)
        if m:
            base, projs = self.parse_place(m.group(1))
            # reference to a place: reborrow through an existing ref when the place starts with deref
            if projs and projs[0][0] == "deref":
                r = env[base][0]
                if r[0] == "opaque" and getattr(self, "opaque_fields", False) and len(projs) == 1:
                    # a raw pointer obtained from an abstract value (Box internals): its pointee is that value
                    return ("ref", [r])
                if r[0] != "ref":
                    raise MirError("reborrow of non-ref")
                return ("ref", r[1]) + tuple(r[2:]) + tuple(projs[1:])
            return ("ref", env[base]) + tuple(projs)
        m = re.match(r"^discriminant\((.*)\)$", s)
        if m:
            v = self.read_place(f, m.group(1), env)
            if v[0] == "adt":
                return mk_int(lit(v[2]), 64, True)
            raise MirError("discriminant of non-adt: %s = %r" % (s, v))
        # aggregates
        if s.startswith("(") and s.endswith(")") and not re.match(r"^\(.*\.\d+: .*\)$", s) and not s.startswith("(*"):
            inner = s[1:-1]
            if inner.strip() == "":
                return ("tuple", [])
            parts = split_top(inner, ",")
            if len(parts) >= 2 or inner.rstrip().endswith(","):
                return ("tuple", [self.operand(f, p, env) for p in parts if p.strip()])
        m = re.match(r"^(\{closure@[^}]*\}) \{ (.*) \}$", s)
        if m:
            fields = {}
            for i, p in enumerate(split_top(m.group(2), ",")):
                n, v = p.split(":", 1)
                fields[i] = self.operand(f, v, env)
            return ("adt", m.group(1).strip(), 0, fields)
        if re.match(r"^\{closure@[^}]*\}$", s):
            return ("adt", s, 0, {})
        m = re.match(r"^([\w:<>, ]+?) \{ (.*) \}$", s)
        if m:
            fields = {}
            for i, p in enumerate(split_top(m.group(2), ",")):
                n, v = p.split(":", 1)
                fields[i] = self.operand(f, v, env)
            return ("adt", m.group(1).strip(), 0, fields)
        m = re.match(r"^(?:std::result::)?Result::<.*>::(Ok|Err)\((.*)\)$", s)
        if m:
            return ("adt", "Result", 0 if m.group(1) == "Ok" else 1, {0: self.operand(f, m.group(2), env)})
        m = re.match(r"^(?:std::option::)?Option::<.*>::Some\((.*)\)$", s)
        if m:
            return ("adt", "Option", 1, {0: self.operand(f, m.group(1), env)})
        if re.match(r"^(?:std::option::)?Option::<.*>::None$", s):
            return ("adt", "Option", 0, {})
        m = re.match(r"^((?:\w+(?:::<[^()]*>)?::)*[A-Z]\w*)\((.*)\)$", s)
        if m and m.group(1) not in BINOPS:
            # tuple-like enum variant / tuple struct constructor: the variant is kept by name
            parts = [p for p in split_top(m.group(2), ",") if p.strip()]
            return ("adt", m.group(1), m.group(1).split("::")[-1], {i: self.operand(f, p, env) for i, p in enumerate(parts)})
        return self.operand(f, s, env)

    def int_cast(self, v, bits, signed):
        if v[0] != "int":
            raise MirError("cast of " + v[0])
        _, t, b0, s0 = v
        if signed or s0:
            # only value-preserving signed casts are needed (small non-negative constants)
            return mk_int(t, bits, signed)
        if bits >= b0:
            return mk_int(t, bits, False)
        return mk_int("(mod %s %s)" % (t, two(bits)), bits, False)

    def binop(self, op, a, b):
        if op in ("Eq", "Ne") and a[0] == "bool":
            t = "(= %s %s)" % (a[1], b[1])
            return mk_bool(t if op == "Eq" else s_not(t))
        if op in ("Eq", "Ne") and a[0] == "opaque":
            t = "(= %s %s)" % (a[1], b[1])
            return mk_bool(t if op == "Eq" else s_not(t))
        if getattr(self, "opaque_fields", False):
            # an abstract value used as a number (e.g. a capacity field of an abstract struct)
            def as_int(v, like):
                if v[0] == "opaque" and re.match(r"^\w+$", v[1]):
                    self.decls.append((v[1], "Int"))
                    return mk_int(v[1], like[2] if like[0] == "int" else 64, like[3] if like[0] == "int" else False)
                return v
            a, b = as_int(a, b), as_int(b, a)
        if a[0] != "int" or b[0] != "int":
            raise MirError("binop %s on %s,%s" % (op, a[0], b[0]))
        x, y, bits, sg = a[1], b[1], a[2], a[3]
        cx, cy = const_value(x), const_value(y)
        if cx is not None and cy is not None:
            folded = {"Lt": cx < cy, "Le": cx <= cy, "Gt": cx > cy, "Ge": cx >= cy, "Eq": cx == cy, "Ne": cx != cy}
            if op in folded:
                return mk_bool("true" if folded[op] else "false")
            lo0 = -(1 << (bits - 1)) if sg else 0
            hi0 = (1 << (bits - 1)) - 1 if sg else (1 << bits) - 1
            ar = {"Add": cx + cy, "Sub": cx - cy, "Mul": cx * cy}
            for k2, v2 in ar.items():
                if op == k2 + "WithOverflow":
                    o = v2 < lo0 or v2 > hi0
                    return ("tuple", [mk_int(lit(v2 % (1 << bits) if not sg else v2), bits, sg), mk_bool("true" if o else "false")])
        lo = -(1 << (bits - 1)) if sg else 0
        hi = (1 << (bits - 1)) - 1 if sg else (1 << bits) - 1

        def wrap(t):
            if sg:
                raise MirError("signed wrapping not modelled")
            return "(mod %s %s)" % (t, two(bits))

        def ovf(t):
            return "(or (< %s %s) (> %s %s))" % (t, lit(lo), t, lit(hi))
        cmpops = {"Lt": "<", "Le": "<=", "Gt": ">", "Ge": ">="}
        if op in cmpops:
            return mk_bool("(%s %s %s)" % (cmpops[op], x, y))
        if op == "Eq":
            return mk_bool("(= %s %s)" % (x, y))
        if op == "Ne":
            return mk_bool("(not (= %s %s))" % (x, y))
        arith = {"Add": "+", "Sub": "-", "Mul": "*"}
        if op in arith:
            # MIR `Add` etc. (no overflow check) wrap
            return mk_int(wrap("(%s %s %s)" % (arith[op], x, y)), bits, sg)
        m = re.match(r"^(Add|Sub|Mul)WithOverflow$", op)
        if m:
            t = "(%s %s %s)" % (arith[m.group(1)], x, y)
            return ("tuple", [mk_int(wrap(t) if not sg else t, bits, sg), mk_bool(ovf(t))])
        if op == "Div":
            return mk_int("(div %s %s)" % (x, y), bits, sg)
        if op == "Rem":
            return mk_int("(mod %s %s)" % (x, y), bits, sg)
        if op == "Shr":
            k = const_value(y)
            if k is None:
                raise MirError("shift by a non-constant")
            return mk_int("(div %s %s)" % (x, two(k)), bits, sg)
        if op == "Shl":
            k = const_value(y)
            if k is None:
                raise MirError("shift by a non-constant")
            return mk_int(wrap("(* %s %s)" % (x, two(k))), bits, sg)
        if op == "BitOr" and const_value(y) == 1:
            # x | 1
            return mk_int("(+ %s (- 1 (mod %s 2)))" % (x, x), bits, sg)
        if op == "BitXor" and const_value(y) == 1:
            # x ^ 1: the low bit flipped
            return mk_int("(ite (= (mod %s 2) 0) (+ %s 1) (- %s 1))" % (x, x, x), bits, sg)
        if op == "BitAnd" and const_value(y) is not None and (const_value(y) + 1) & const_value(y) == 0:
            # x & (2^k - 1)
            return mk_int("(mod %s %s)" % (x, lit(const_value(y) + 1)), bits, sg)
        raise MirError("unsupported binop " + op)

    # ---- statements / terminators ---------------------------------------------------------------
    def exec_stmt(self, f, s, env, pc):
        s = s.rstrip(";")
        if s.startswith(("StorageLive", "StorageDead", "nop", "ConstEvalCounter", "FakeRead", "PlaceMention", "Retag", "AscribeUserType", "Coverage")):
            return
        m = re.match(r"^(.+?) = (.*)$", s)
        if not m:
            raise MirError("unsupported statement: " + s)
        dst, rv = m.group(1), m.group(2)
        val = self.rvalue(f, rv, env, pc)
        self.write_place(f, dst, env, val)

    def exec_term(self, f, t, env, pc, depth):
        t = t.rstrip(";")
        if t == "return":
            rv = env["_0"][0] if "_0" in env else ("tuple", [])
            return [("ret", rv, list(pc))]
        if t in ("unreachable", "resume"):
            return []
        m = re.match(r"^goto -> (bb\d+)$", t)
        if m:
            return [("go", m.group(1), env, pc)]
        m = re.match(r"^drop\((.*)\) -> \[return: (bb\d+),.*\]$", t)
        if m:
            hook = getattr(self, "on_drop", None)
            if hook is not None:
                place = m.group(1).strip()
                try:
                    val = self.read_place(f, place, env)
                except Exception:
                    val = None
                hook(f, place, val, pc)
            return [("go", m.group(2), env, pc)]
        m = re.match(r"^switchInt\((.*)\) -> \[(.*)\]$", t)
        if m:
            v = self.operand(f, m.group(1), env)
            outs = []
            taken = []
            for arm in split_top(m.group(2), ","):
                kk, tgt = [x.strip() for x in arm.split(":")]
                if kk == "otherwise":
                    cond = "false" if "true" in taken else s_and(*[s_not(c) for c in taken if c != "false"])
                else:
                    if v[0] == "bool":
                        cond = v[1] if int(kk) != 0 else s_not(v[1])
                    elif const_value(v[1]) is not None:
                        cond = "true" if const_value(v[1]) == int(kk) else "false"
                    else:
                        cond = "(= %s %s)" % (v[1], lit(int(kk)))
                    taken.append(cond)
                if cond == "false":
                    continue
                outs.append(("go", tgt, self.copy_env(env), pc + ([cond] if cond != "true" else [])))
            return outs
        m = re.match(r"^assert\((.*?), \"(.*?)\"(?:, .*)?\) -> \[success: (bb\d+), .*\]$", t)
        if m:
            cs = m.group(1).strip()
            neg = False
            if cs.startswith("!"):
                neg = True
                cs = cs[1:]
            v = self.operand(f, cs, env)
            cond = s_not(v[1]) if neg else v[1]
            if cond != "true":
                self.obligations.append(("no panic: " + m.group(2), list(pc), cond, f.name))
            return [("go", m.group(3), env, pc + ([cond] if cond != "true" else []))]
        m = re.match(r"^(.+?) = (.*) -> (?:\[return: (bb\d+), .*\]|(bb\d+)|unwind .*)$", t)
        if m and m.group(2).endswith(")"):
            dst, callexpr, ret_bb = m.group(1), m.group(2), m.group(3)
            # the argument list is the last balanced parenthesis group
            depth = 0
            k = len(callexpr) - 1
            while k >= 0:
                if callexpr[k] == ")":
                    depth += 1
                elif callexpr[k] == "(":
                    depth -= 1
                    if depth == 0:
                        break
                k -= 1
            callee, argstr = callexpr[:k].strip(), callexpr[k + 1:-1]
            args = [self.operand(f, a, env) for a in split_top(argstr, ",") if a.strip()]
            if ret_bb is None:
                # diverging call (panic)
                self.obligations.append(("no panic: call to " + callee, list(pc), "false", f.name))
                return []
            outs = []
            self.current_dst_ty = f.locals.get(dst.strip()) if re.match(r"^_\d+$", dst.strip()) else None
            results = self.call(callee, args, pc, depth, f=f, argstr=argstr, env=env)
            for r in results:
                extra_pc, val = r[0], r[1]
                extra_pc = [c for c in extra_pc if c != "true"]
                if len(results) == 1:
                    e2 = env
                else:
                    e2 = self.copy_env(env)
                if len(r) == 4:
                    # model asks for a write-back through a reference argument: redo it in the copied env
                    idx = [i for i, a in enumerate(args) if a is r[2]][0]
                    a_text = [a for a in split_top(argstr, ",") if a.strip()][idx]
                    ref2 = self.operand(f, a_text, e2)
                    ref2[1][0] = r[3]
                self.write_place(f, dst, e2, val)
                outs.append(("go", ret_bb, e2, pc + extra_pc))
            return outs
        raise MirError("unsupported terminator: " + t)

    def call(self, callee, args, pc, depth, f=None, argstr=None, env=None):
        """-> [(extra path condition, return value)]"""
        key = normalise_callee(callee)
        self.current_callee = callee
        for pat, fn in self.models.items():
            if re.search(pat, key):
                self.models_used.add(pat)
                return fn(self, args, pc)
        hits = find_function(self.funcs, key) if self.inline(key) else []
        if len(hits) == 1 and depth < self.max_depth:
            self.inlined.add(hits[0])
            self.pc_stack.append(list(pc))
            try:
                res = self.run(hits[0], args, depth + 1)
            finally:
                self.pc_stack.pop()
            out = []
            for (rpc, rv, _env) in res:
                out.append((rpc, rv))
            return out
        if getattr(self, "default_model", None) is not None:
            return self.default_model(self, callee, args, pc, getattr(self, "current_dst_ty", None))
        # uninterpreted: fresh result, call recorded
        f = None
        ret = ("opaque", "uf_%d" % next(self.counter), callee)
        self.decls.append((ret[1], "Int"))
        self.calls_seen.append((callee, args, list(pc), ret))
        return [([], ret)]


def balanced(s):
    d = 0
    for c in s:
        if c in "([":
            d += 1
        elif c in ")]":
            d -= 1
            if d < 0:
                return False
    return d == 0


def const_value(t):
    m = re.match(r"^-?\d+$", t)
    if m:
        return int(t)
    m = re.match(r"^\(- (\d+)\)$", t)
    if m:
        return -int(m.group(1))
    return None


def normalise_callee(c):
    c = re.sub(r"<impl at [^>]*>::", "", c)
    return c.strip()


BINOPS = {"Add", "Sub", "Mul", "Div", "Rem", "Shr", "Shl", "Lt", "Le", "Gt", "Ge", "Eq", "Ne", "BitAnd", "BitOr", "BitXor",
          "AddWithOverflow", "SubWithOverflow", "MulWithOverflow"}


# ------------------------------------------------------------------------------------------
# models of the few core functions the kernels call (each is the documented semantics)
def m_wrapping_mul(ex, args, pc):
    a, b = args
    return [([], mk_int("(mod (* %s %s) %s)" % (a[1], b[1], two(a[2])), a[2], False))]


def m_wrapping_add(ex, args, pc):
    a, b = args
    return [([], mk_int("(mod (+ %s %s) %s)" % (a[1], b[1], two(a[2])), a[2], False))]


def m_saturating_mul(ex, args, pc):
    a, b = args
    mx = lit((1 << a[2]) - 1)
    p = "(* %s %s)" % (a[1], b[1])
    return [([], mk_int("(ite (> %s %s) %s %s)" % (p, mx, mx, p), a[2], False))]


def m_saturating_sub(ex, args, pc):
    a, b = args
    if a[3]:
        lo = lit(-(1 << (a[2] - 1)))
        d = "(- %s %s)" % (a[1], b[1])
        return [([], mk_int("(ite (< %s %s) %s %s)" % (d, lo, lo, d), a[2], True))]
    return [([], mk_int("(ite (< %s %s) 0 (- %s %s))" % (a[1], b[1], a[1], b[1]), a[2], False))]


def m_min(ex, args, pc):
    a, b = args
    return [([], mk_int("(ite (<= %s %s) %s %s)" % (a[1], b[1], a[1], b[1]), a[2], a[3]))]


def m_max(ex, args, pc):
    a, b = args
    return [([], mk_int("(ite (>= %s %s) %s %s)" % (a[1], b[1], a[1], b[1]), a[2], a[3]))]


def m_checked_div(ex, args, pc):
    a, b = args
    return [(["(= %s 0)" % b[1]], ("adt", "Option", 0, {})),
            (["(not (= %s 0))" % b[1]], ("adt", "Option", 1, {0: mk_int("(div %s %s)" % (a[1], b[1]), a[2], a[3])}))]


MODELS = {
    r"<[iu]\w+ as Ord>::max$": m_max,
    r"(std|core)::cmp::(Ord::)?max(::<\w+>)?$": m_max,
    r"<[iu]\w+ as Ord>::min$": m_min,
    r"core::num::<impl u\w+>::checked_div$": m_checked_div,
    r"core::num::<impl u\w+>::wrapping_mul$": m_wrapping_mul,
    r"core::num::<impl u\w+>::wrapping_add$": m_wrapping_add,
    r"core::num::<impl u\w+>::saturating_mul$": m_saturating_mul,
    r"core::num::<impl [iu]\w+>::saturating_sub$": m_saturating_sub,
    r"(std|core)::cmp::(Ord::)?min(::<\w+>)?$": m_min,
    r"<usize as Ord>::min$": m_min,
}
