"""Registry: which solver queries decide which property, at which tier.

A *unit* is one bounded solver query: a Kani harness (K) or an engine-M obligation set (M).
Units are defined once (UNITS) and shared: KFS's stubs carry the guarantee-side assertions of
several properties (tagged `KV-Cxx: ...`), so one harness run can serve several properties; a
property's check only counts assertions carrying its own tag (plus untagged failures inside crate
code), so a failure is attributed to the property whose statement it breaks.
"""
import os
import re


def fs_rules(n_sort=4, crate_bound=8, path_bound=40):
    return [
        (r"sort|smallsort|insert_tail|bidirectional_merge|heapsort|quicksort|partition", n_sort + 2),
        (r"memcmp|memchr|Components|rposition|position|trim|utf8|Utf8|from_utf8|CharSearcher|next_match|char_count", path_bound),
        (r"\d+kv_", 48),
        (r"12kismet_cache", crate_bound),
    ]


class K:
    kind = "kani"

    def __init__(self, group, name, *, timeout=1500, mem_gb=10, functions=(), bounds="", expect="pass",
                 rules="fs", notes="", panic_ok=(), lean=False, covers="all"):
        self.group = group
        # lean: Kani's automatic memory-safety / overflow / reachability checks are switched off
        # for this harness (only the harness's own assertions, the crate's panics and the
        # unwinding assertions are decided); recorded in the evidence as part of the claim.
        self.lean = lean
        self.covers = covers  # "all": every kani::cover! must be satisfied; "any": at least one
        self.name = name
        self.tiers = ("quick", "thorough")
        self.timeout = timeout
        self.mem_gb = mem_gb
        self.functions = list(functions)
        self.bounds = bounds
        self.expect = expect
        self.replay = "playback" if rules is None else "scenario"
        self.rules = fs_rules() if rules == "fs" else rules
        self.notes = notes
        self.panic_ok = tuple(panic_ok)


class M:
    kind = "smt"

    def __init__(self, name, *, functions=(), bounds="", notes=""):
        self.name = name
        self.tiers = ("quick", "thorough")
        self.functions = list(functions)
        self.bounds = bounds
        self.notes = notes
        self.group = None
        self.expect = "pass"
        self.timeout = 300
        self.mem_gb = 1
        self.rules = None
        self.panic_ok = ()
        self.replay = "native-eval"


class Use:
    """A unit as used by one property at given tiers."""

    def __init__(self, u, tiers):
        self.__dict__.update(u.__dict__)
        self.kind = u.kind
        self.tiers = tiers


UNITS = {}


def unit(u):
    UNITS[u.name] = u
    return u


PLANNER = ["second_chance::Update::new", "alloc::slice::sort_by_cached_key (std, real)"]
RAW = ["raw_cache::{insert_or_update,insert_or_touch,touch,ensure_file_touched,move_to_back_of_list,set_read_only,ensure_file_removed}",
       "raw_cache::{collect_cached_files,apply_update,CachedFile::new}", "benign_error::is_absent_file_error"]
PLAIN = ["plain::Cache::{new,get,touch,set,put}", "cache_dir::CacheDir::{get,touch,set,put,maybe_cleanup,definitely_cleanup,cleanup_temp_directory}",
         "cache_dir::{validate_file_name,cleanup_temporary_directory,ensure_directory}", "trigger::{PeriodicTrigger::{new,event,weighted_event},observe}"] + RAW
SHARDED = ["sharded::Cache::{new,get,touch,set,put,shard,sort_by_load,other_shard_id,update_estimate,force_maintain_shard,maintain_random_other_shard}",
           "sharded::{format_id,Shard::{replace_shard,file_exists}}"] + PLAIN[1:]
STACK = ["stack::{CacheBuilder::*,Cache::{get,touch,ensure,get_or_update,set,put,set_temp_file,put_temp_file,maybe_sync_path},finalize_tempfile}",
         "readonly::{ReadOnlyCacheBuilder::*,ReadOnlyCache::{get,touch}}", "byte_equality_checker"] + SHARDED
CDIR = ["cache_dir::validate_file_name", "cache_dir::cleanup_temporary_directory", "std::path::PathBuf::push (real)"]
VEC_STUBS = ["Vec::new -> Vec::with_capacity(8) (same abstract value; avoids CBMC's integer-address model of dangling buffers)",
             "Vec::reserve -> assert!(capacity suffices) (growth path cut; a failure is reported as inconclusive)"]

# ---- planner (no filesystem) ---------------------------------------------------------------
for n, b, t, m in [("c08_n0", "n=0, capacity: any usize", 600, 4), ("c08_n1", "n=1, ranks<4, flags any, capacity: any usize; full plan", 600, 4),
                   ("c08_n2", "n=2, ranks<4, flags any, capacity: any usize; full plan", 1200, 8),
                   ("c08_n2_fullrank", "n=2, ranks: any u8, flags any, capacity: any usize; full plan", 1200, 8),
                   ("c08_n3_evicted", "n=3, ranks<4, flags any, capacity: any usize; to_evict contents + both lengths", 2400, 12),
                   ("c08_n4_evicted", "n=4, ranks<4, flags any, capacity: any usize; to_evict contents + both lengths", 7200, 40),
                   ("c08_spec_planner_n2", "n=2: the planner model used by other harnesses satisfies the same oracle", 900, 12),
                   ("c08_spec_planner_n3", "n=3: the planner model used by other harnesses satisfies the same oracle", 1800, 12)]:
    unit(K("second_chance", n, functions=PLANNER, bounds=b, timeout=t, mem_gb=m, rules=None))
unit(K("second_chance", "c08_sanity_twin", expect="fail", bounds="n=2", timeout=1200, mem_gb=8, rules=None,
       notes="vacuity witness: same body ending in assert!(false) must be violated"))

# ---- raw_cache on KFS --------------------------------------------------------------------------
for n, b in [("kfs_selftest", "KFS fabrication of Metadata/paths re-validated through the public accessors"),
             ("raw_insert_or_update_basic", "key present/absent, any source mode, any atime policy, granularity {1ns,1s,2s}"),
             ("raw_insert_or_touch_basic", "key present/absent, any source mode, any atime policy, granularity {1ns,1s,2s}"),
             ("raw_touch_basic", "key present/absent, any policy/granularity"),
             ("raw_collect_ab_sub", "listing {ka, kb, sd/}: times symbolic, ka may vanish between readdir and stat"),
             ("raw_collect_a_temp", "listing {ka, .kismet_temp/}"), ("raw_collect_a_app", "listing {ka, .p}"),
             ("raw_collect_empty_temp", "listing {.kismet_temp/}; missing directory"),
             ("raw_apply_update_evict_a_moveback_b", "plan evict [ka] move back [kb]; either may have vanished"),
             ("raw_prune_pieces_dotfile_only", "collect + capacity-0 plan + apply_update on {.p}"),
             ("raw_prune_pieces_dotfile_and_a", "collect + capacity-0 plan + apply_update on {ka, .p}")]:
    unit(K("raw_ops", n, functions=RAW, bounds=b, timeout=1500, mem_gb=16 if ("ab_sub" in n or "and_a" in n) else 10))
unit(K("raw_ops", "raw_ops_sanity_twin", functions=RAW, expect="fail", timeout=900))

# ---- plain cache ----------------------------------------------------------------------------------
for n in ["plain_get_seq", "plain_get_env", "plain_get_fault", "plain_touch_seq", "plain_touch_env", "plain_touch_fault",
          "plain_set_seq", "plain_put_seq", "plain_set_env", "plain_put_env", "plain_set_fault", "plain_put_fault",
          "plain_write_missing_dir_env", "plain_invalid_name_empty", "plain_invalid_name_dot", "plain_invalid_name_slash", "plain_invalid_name_backslash"]:
    mode = "rely environment (any number of peers: rebinding, eviction, mkdir, restamping) between every two calls" if n.endswith("env") else \
        "one injected failure at any call, errno in {EIO,EACCES,ENOSPC,ESTALE,..}" if n.endswith("fault") else "sequential"
    unit(K("plain_ops", n, functions=PLAIN, timeout=1800 if ("set" in n or "put" in n) else 1200, mem_gb=12,
           bounds="2 keys, each present/absent; directory present/missing; any capacity; any RNG draw; " + mode))
unit(K("plain_ops", "plain_ops_sanity_twin", functions=PLAIN, expect="fail", timeout=1200, mem_gb=12))

# ---- cache_dir --------------------------------------------------------------------------------------
unit(K("cache_dir_ops", "c16_validator", functions=CDIR, bounds="every ASCII name of <= 3 bytes", timeout=600, rules=None))
unit(K("cache_dir_ops", "c16_confinement", functions=CDIR, bounds="every accepted ASCII name of 1..3 bytes", timeout=900, rules=None))
unit(K("cache_dir_ops", "c16_sanity_twin", functions=CDIR, expect="fail", timeout=600, rules=None))
unit(K("cache_dir_ops", "c02_cleanup_temp_by_age", functions=CDIR, bounds="2 temp files, ages on both sides of and at the limit, any clock", timeout=1200))
unit(K("cache_dir_ops", "c02_cleanup_temp_missing_dir", functions=CDIR, timeout=600))
unit(K("cache_dir_ops", "c02_cleanup_temp_debris", functions=CDIR, timeout=900,
       bounds="temp directory holding a stale second link to the inode published under the key (crash debris)"))
unit(K("cache_dir_ops", "c05_cleanup_temp_vanish", functions=CDIR, timeout=900,
       bounds="one stale temp file that a competing cleaner removes between our stat and our unlink"))

# ---- sharded cache ------------------------------------------------------------------------------------
for n in ["sharded_get_01", "sharded_get_10", "sharded_touch_01", "sharded_set_absent", "sharded_set_in_secondary", "sharded_set_in_primary_heavy",
          "sharded_put_in_secondary", "sharded_put_absent_heavy", "sharded_set_absent_env", "sharded_put_absent_fault",
          "sharded_write_notrigger", "sharded_invalid_names"]:
    unit(K("sharded_ops", n, functions=SHARDED, timeout=1500, mem_gb=(18 if ("set" in n or "put" in n or "write" in n or "invalid" in n) else 10),
           bounds="3 shards, candidate shards fixed to (0,1)/(1,0) (mapping itself: engine M), each shard dir present/missing, "
                  "key absent / in primary / in secondary, arbitrary load estimates"))
unit(K("sharded_ops", "c12_new_clamps", functions=["sharded::Cache::new"], bounds="num_shards 0..3, any capacity", timeout=900, rules=None))
unit(K("sharded_ops", "c12_format_id", functions=["sharded::format_id (real format!)"], bounds="shard index < 2^20", timeout=1500, rules=None))
unit(K("sharded_ops", "c12_constants", functions=["sharded::{PRIMARY_MIXER,SECONDARY_MIXER} (const-evaluated new_keyed)"], timeout=600, rules=None))
unit(K("sharded_ops", "sharded_ops_sanity_twin", functions=SHARDED, expect="fail", timeout=3000, mem_gb=12))

# ---- stacked caches --------------------------------------------------------------------------------------
_root = os.path.dirname(os.path.dirname(os.path.dirname(os.path.abspath(__file__))))
STACK_NAMES = re.findall(r"stackc?_harness!\((\w+),", open(os.path.join(_root, "harness", "stack_ops.rs")).read())
for n in STACK_NAMES:
    unit(K("stack_ops", n, functions=STACK, timeout=(2400 if n == "stackc_set_temp_w1r1_fault" else 1500), mem_gb=int(os.environ.get("KV_STACK_MEM", "0")) or (18 if ("gou" in n or "ensure" in n or "temp" in n or "set_w1" in n or "put_w1" in n or "bytes" in n) else 10),
           bounds="per level: key absent / value A / value B; populate outcome {value, NotFound, other error}; judge answer any",
           panic_ok=("auto_sync failed, and failure semantics are unclear",) if "fault" in n else (), covers="any"))
unit(K("stack_ops", "stack_ops_sanity_twin", functions=STACK, expect="fail", timeout=2400, mem_gb=10))

unit(K("readonly_ops", "readonly_builder_equiv", functions=["readonly::ReadOnlyCacheBuilder::{new,plain,byte_equality_checker,take,build}"],
       bounds="two plain levels, checker configured or not", timeout=900, rules=None))

# ---- engine M ---------------------------------------------------------------------------------------------
unit(M("c12_mapping", functions=["multiplicative_hash::{reduce,mix,map}", "sharded::Cache::{shard_ids,other_shard_id}"],
       bounds="all u64 hashes, all usize shard counts >= 2, any mixer constants"))
unit(M("c10_trigger", functions=["trigger::PeriodicTrigger::new", "trigger::observe::{closure#0}", "plain::Cache::new"],
       bounds="all periods / capacities / random draws (integer encoding, no bit-width cut)"))
unit(M("c08_planner", functions=["second_chance::Update::new", "second_chance::Update::new::{closure#0}"],
       bounds="n <= 6 entries, every capacity, every flag vector, any sorted rank vector (ties included); Vec operations as finite sequences; std's sort trusted"))
unit(M("c07_apply_glue", functions=["raw_cache::apply_update"], bounds="plans of up to 2+2 entries (bounded unrolling); callees uninterpreted"))
unit(M("c07_prune_glue", functions=["raw_cache::prune"], bounds="all capacities; callees uninterpreted under their proven contracts"))

unit(M("proto_glue", functions=["raw_cache::{insert_or_update,insert_or_touch,touch,ensure_file_touched,move_to_back_of_list,set_read_only,ensure_file_removed}",
                                 "cache_dir::CacheDir::{get,touch,set,put}", "sharded::Shard::file_exists", "sharded::Cache::{get,touch,set,put}"],
       bounds="every path of each function's MIR (no loops); every callee succeeding or failing; callees uninterpreted; crate-local helpers inlined"))
unit(M("builder_glue", functions=["stack::CacheBuilder::{default,arc_consistency_checker,clear_consistency_checker,build}", "readonly::ReadOnlyCacheBuilder::{default,arc_consistency_checker,clear_consistency_checker,build}"],
       bounds="builder scripts {set, set+clear, clear, none} x with / without read-only caches; struct layout taken from the Default impl"))
unit(M("readonly_glue", functions=["readonly::ReadOnlyCache::get::doit", "readonly::ReadOnlyCache::touch::doit"],
       bounds="stacks of up to 3 read-only levels (bounded unrolling of the scan), checker present/absent, every level hit/miss/failing, every checker and seek outcome"))
unit(M("stack_gou_glue", functions=["stack::Cache::get_or_update", "stack::Cache::get_or_update::promote", "stack::Cache::get_or_update::{closure#0}", "stack::Cache::get_or_update::{closure#1}"],
       bounds="every path of the MIR (no loops): every combination of write cache present/absent, checker present/absent, hit/miss per level, judge answer, "
              "populate outcome, checker verdict, and success/failure of every callee, alone or together; callees uninterpreted"))
unit(M("stack_ops_glue", functions=["stack::Cache::{get,touch,set,put,set_temp_file,put_temp_file}::doit", "stack::Cache::{set_impl,put_impl,maybe_sync_path}"],
       bounds="every path of the MIR: write cache present/absent, checker present/absent, auto_sync on/off, every callee succeeding or failing; callees uninterpreted"))
unit(M("stack_finalize_glue", functions=["stack::finalize_tempfile", "stack::finalize_tempfile::close"],
       bounds="every path of the MIR: syncing on/off, every callee succeeding or failing"))

PROPS = {}


def prop(pid, quick, thorough=(), **kw):
    units = [Use(UNITS[n], ("quick", "thorough")) for n in quick] + [Use(UNITS[n], ("thorough",)) for n in thorough]
    PROPS[pid] = dict(units=units, **kw)


COMMON_ASSUME = ["Kani/CBMC/CaDiCaL verdicts", "the KFS model (harness/kfs.rs): one POSIX step per call, local-filesystem atomicity",
                 "every #[kani::stub] listed in harness/kfs.rs::kfs_harness is part of the claim"]
RELY = "rely/guarantee: between any two calls of the operation the shared directories move to any state other participants' protocol steps can produce"

prop("C01", ["stack_gou_glue", "proto_glue", "plain_get_env", "raw_insert_or_update_basic", "raw_insert_or_touch_basic", "raw_ops_sanity_twin"],
     ["sharded_get_01", "stack_get_w1r1_nock", "plain_set_seq", "plain_put_seq"],
     outside=["byte-granular reads (values are abstracted to content ids; 'complete' is set only by the last write)", "NFS close-to-open semantics", "peers that violate the protocol"], assumptions=COMMON_ASSUME + [RELY])
prop("C02", ["c02_cleanup_temp_debris", "proto_glue", "raw_insert_or_update_basic", "raw_insert_or_touch_basic", "c02_cleanup_temp_by_age", "c02_cleanup_temp_missing_dir", "raw_apply_update_evict_a_moveback_b", "raw_ops_sanity_twin"],
     ["plain_set_seq", "plain_put_seq", "plain_set_fault", "sharded_set_absent", "stackc_set_w1r1_cp", "stackc_set_temp_w1r1_cp"],
     outside=["power-loss reordering of un-fsynced directory updates (documented: directories are not fsynced)", "validity is asserted at every call boundary of KFS, i.e. at every point where the process can die between two system calls"],
     assumptions=COMMON_ASSUME)
prop("C03", ["stack_gou_glue", "stack_ops_glue", "stack_finalize_glue", "raw_insert_or_update_basic", "raw_insert_or_touch_basic", "stack_ops_sanity_twin"],
     ["stackc_set_temp_w1r1_fault", "stackc_set_temp_w1r1", "stackc_put_temp_w1r1", "stackc_set_w1r1", "stackc_set_w1r1_fault", "stackc_put_w1r1", "stack_set_w1r1"],
     outside=["whether the kernel's fsync is durable", "value sizes (content ids)"], assumptions=COMMON_ASSUME)
prop("C04", ["stack_gou_glue", "proto_glue", "plain_get_env", "plain_touch_env", "raw_insert_or_touch_basic", "raw_touch_basic", "raw_ops_sanity_twin"],
     ["plain_put_seq", "stackc_put_w1r1"],
     outside=["linearizability is decided as a forward simulation per operation (linearization point = the publishing / opening call), not by enumerating histories"],
     assumptions=COMMON_ASSUME + [RELY])
prop("C05", ["c05_cleanup_temp_vanish", "proto_glue", "c07_apply_glue", "plain_get_env", "plain_touch_env", "raw_apply_update_evict_a_moveback_b", "raw_collect_a_temp", "raw_ops_sanity_twin"],
     ["plain_write_missing_dir_env"],
     outside=["adversarial deletion of young temp files (excluded by the property)"], assumptions=COMMON_ASSUME + [RELY])
prop("C06", ["proto_glue", "plain_get_env", "plain_touch_env", "plain_ops_sanity_twin"],
     ["plain_write_missing_dir_env"],
     outside=["blocking inside the kernel", "step bounds are asserted as call-count constants under every environment answer, with unwinding assertions on"],
     assumptions=COMMON_ASSUME + [RELY])
prop("C07", ["c07_prune_glue", "c07_apply_glue", "raw_collect_a_temp", "raw_collect_a_app", "raw_collect_empty_temp", "raw_apply_update_evict_a_moveback_b", "raw_ops_sanity_twin"],
     ["c08_n2", "c08_n3_evicted"],
     outside=["listings of more than 3 entries; plans of more than 2 entries", "the composition prune = apply_update . planner . listing is decided on the MIR of prune ", "with the three callees uninterpreted (engine M); each callee by its own harnesses; the planner itself is C08"],
     assumptions=COMMON_ASSUME)
prop("C08", ["c08_planner", "c08_n0", "c08_n1", "c08_n2", "c08_n2_fullrank", "c08_sanity_twin"], ["c08_n3_evicted", "c08_spec_planner_n2", "c08_spec_planner_n3"],
     outside=["n > 2 for the contents of to_move_back; n > 4 for to_evict (CBMC runs out of memory on Vec::drain's memmove with a symbolic length; measured)", "rank domains other than {0..3} / u8; the planner only uses ranks through Ord", "tie order is left free by the oracle (the statement says 'under some ordering of equally ranked entries')"],
     assumptions=["Kani/CBMC model of alloc::vec and core::slice::sort is faithful", "CaDiCaL verdicts"] + VEC_STUBS)
prop("C09", ["proto_glue", "plain_get_seq", "plain_touch_seq", "raw_insert_or_update_basic", "raw_insert_or_touch_basic", "raw_touch_basic", "raw_ops_sanity_twin"],
     ["plain_set_seq", "plain_put_seq", "sharded_get_01", "raw_apply_update_evict_a_moveback_b"],
     outside=["clocks that go backwards or differ between hosts", "granularities other than {1 ns, 1 s, 2 s}"], assumptions=COMMON_ASSUME)
prop("C10", ["proto_glue", "c10_trigger", "plain_ops_sanity_twin"], ["plain_set_seq", "plain_put_seq"],
     outside=["concurrent writers (excluded by the property)", "several caches sharing one thread's countdown"],
     assumptions=COMMON_ASSUME + ["after maintenance at most `capacity` files remain (C07)"])
prop("C11", ["proto_glue", "plain_get_seq", "plain_touch_seq", "raw_insert_or_update_basic", "raw_insert_or_touch_basic", "raw_ops_sanity_twin"],
     ["plain_set_seq", "plain_put_seq", "sharded_get_01", "sharded_get_10", "sharded_touch_01", "sharded_set_absent", "stack_set_w1r1"],
     outside=["histories are covered as one inductive step from an arbitrary valid state (simulation relation), not enumerated", "in-memory load estimates and the trigger countdown are arbitrary in the pre-state (this is what several handles amount to)"],
     assumptions=COMMON_ASSUME)
prop("C12", ["proto_glue", "c12_mapping", "c12_constants", "c12_new_clamps", "sharded_ops_sanity_twin"],
     ["c12_format_id", "sharded_get_01", "sharded_get_10", "sharded_touch_01", "sharded_set_absent"],
     outside=["directory names for shard indices >= 2^20", "probe order is checked with the two candidate ids fixed to (0,1) and (1,0)"],
     assumptions=COMMON_ASSUME + ["z3 and cvc5 agree (both consulted on every obligation)"])
prop("C13", ["readonly_glue", "stack_gou_glue", "stack_ops_glue", "stack_get_w1r1_nock", "stack_touch_w1r2", "stack_set_w0r1", "stack_ops_sanity_twin"],
     ["stackc_set_w1r1", "stackc_touch_w1r2", "stackc_put_w1r1", "stackc_set_temp_w1r1", "stackc_put_temp_w1r1", "stack_set_w1r1", "stack_put_temp_w0r1", "stack_get_w0r2_bytes", "stack_get_w1r0_nock", "stack_get_w0r1_nock", "readonly_builder_equiv"],
     outside=["stack shapes other than those listed (writer in {none, plain, sharded} x up to two plain readers)"], assumptions=COMMON_ASSUME)
prop("C14", ["builder_glue", "readonly_glue", "stack_gou_glue", "stack_ops_glue", "stack_get_w1r1_nock", "stack_ops_sanity_twin"],
     ["stack_get_w0r2_bytes", "readonly_builder_equiv"],
     outside=["checkers other than none / byte equality (the panicking checker is the same comparison followed by expect())"], assumptions=COMMON_ASSUME)
prop("C15", ["proto_glue", "stack_get_w1r0_nock", "stack_touch_w1r2", "plain_get_seq", "stack_ops_sanity_twin"],
     ["stack_get_w1r1_nock", "stack_get_w0r2_bytes", "stack_set_w1r1", "sharded_get_01", "plain_invalid_name_dot"],
     outside=["read-only sharded levels"], assumptions=COMMON_ASSUME)
prop("C16", ["proto_glue", "c16_validator", "c16_confinement", "plain_invalid_name_empty", "plain_invalid_name_dot", "plain_invalid_name_slash", "plain_invalid_name_backslash", "c16_sanity_twin"], ["sharded_invalid_names", "plain_set_fault"],
     outside=["names longer than 3 bytes and non-ASCII bytes (no byte >= 128 is a separator; the first-byte rule treats them as letters)", "embedded NUL (rejected by std when the path is turned into a C string)"], assumptions=COMMON_ASSUME)
prop("C17", ["raw_prune_pieces_dotfile_only", "c02_cleanup_temp_by_age", "raw_collect_a_temp", "raw_ops_sanity_twin"],
     ["raw_apply_update_evict_a_moveback_b"],
     outside=["nested directories below the cache directory (never listed: directories are skipped)"], assumptions=COMMON_ASSUME)
prop("C18", ["stack_gou_glue", "proto_glue", "stack_ops_glue", "stack_finalize_glue", "c07_apply_glue", "plain_get_fault", "plain_touch_fault", "plain_ops_sanity_twin"],
     ["stackc_set_temp_w1r1_fault", "plain_set_fault", "plain_put_fault", "sharded_put_absent_fault", "stackc_set_w1r1_fault", "stack_set_w1r1_fault"],
     outside=["more than one failing call per operation", "failures inside the caller's populate function other than its own error return", "re-issuing the operation after the fault is covered by the fault-free harnesses starting from arbitrary valid states (C02)"],
     assumptions=COMMON_ASSUME)
prop("C19", ["readonly_glue", "stack_gou_glue", "proto_glue", "stack_ops_glue", "stack_finalize_glue", "plain_get_seq", "stack_get_w1r0_nock", "raw_insert_or_update_basic", "stack_ops_sanity_twin"],
     ["stack_get_w1r1_nock", "stackc_set_temp_w1r1", "stackc_put_temp_w1r1", "plain_set_seq", "sharded_get_01"],
     outside=["the no-writer miss path returns the throw-away temp file itself (read-write by construction): only its offset is checked"],
     assumptions=COMMON_ASSUME + ["the process umask only influences the initial mode of caller-supplied files, which is symbolic"])
prop("C20", ["proto_glue", "plain_get_seq", "plain_touch_seq", "stack_get_w1r0_nock", "plain_ops_sanity_twin"],
     ["stack_get_w1r1_nock", "plain_set_seq", "plain_put_seq", "sharded_get_01", "sharded_touch_01", "sharded_write_notrigger"],
     outside=["the lifetime of directory streams (released inside std when the last DirEntry is dropped; not observable through the stubs)", "independence from the number of entries holds because no directory listing is reachable outside maintenance (asserted)"],
     assumptions=COMMON_ASSUME)

# development aggregates (not properties): run whole harness groups
for grp in ("raw_ops", "plain_ops", "cache_dir_ops", "sharded_ops", "stack_ops", "second_chance", "readonly_ops"):
    PROPS["G_" + grp] = dict(units=[Use(u, ("quick", "thorough")) for u in UNITS.values() if u.group == grp])
PROPS["G_smt"] = dict(units=[Use(u, ("quick", "thorough")) for u in UNITS.values() if u.kind == "smt"])

NOT_APPLICABLE = {}
