"""Registry: which solver queries decide which property, at which tier."""

# Unwind rules shared by all harnesses that run crate code over KFS.
def fs_rules(n_sort=4, crate_bound=8, path_bound=40):
    return [
        (r"sort|smallsort|insert_tail|bidirectional_merge|heapsort|quicksort|partition", n_sort + 2),
        (r"memcmp|memchr|Components|rposition|position|trim|utf8|Utf8|from_utf8|CharSearcher|next_match|char_count", path_bound),
        (r"12kismet_cache", crate_bound),
    ]


class K:
    """One Kani harness = one bounded solver query over the compiled crate."""
    kind = "kani"

    def __init__(self, group, name, *, tiers=("quick", "thorough"), timeout=1200, mem_gb=8,
                 functions=(), bounds="", expect="pass", rules=None, notes="", weight=1,
                 panic_ok=()):
        self.group = group
        self.name = name
        self.tiers = tiers
        self.timeout = timeout
        self.mem_gb = mem_gb
        self.functions = list(functions)
        self.bounds = bounds
        self.expect = expect          # "pass" | "fail" (sanity twin: must come back violated)
        self.rules = rules
        self.notes = notes
        self.weight = weight
        self.panic_ok = tuple(panic_ok)   # documented panics (message substrings) tolerated


class M:
    """One MIR->SMT obligation set (engine M)."""
    kind = "smt"

    def __init__(self, name, *, tiers=("quick", "thorough"), functions=(), bounds="", notes=""):
        self.name = name
        self.tiers = tiers
        self.functions = list(functions)
        self.bounds = bounds
        self.notes = notes
        self.group = None


PROPS = {}


def prop(pid, units, **kw):
    PROPS[pid] = dict(units=units, **kw)


# ------------------------------------------------------------------------------------------
PLANNER = ["second_chance::Update::new", "alloc::slice::sort_by_cached_key (std, real)"]

VEC_STUBS = ["Vec::new -> Vec::with_capacity(8) (same abstract value)",
             "Vec::reserve -> assert!(capacity suffices) (growth path cut; failure => inconclusive)"]

prop("C08", [
    K("second_chance", "c08_n0", functions=PLANNER, bounds="n=0, capacity: any usize", timeout=600, mem_gb=4),
    K("second_chance", "c08_n1", functions=PLANNER, bounds="n=1, ranks<4, flags any, capacity: any usize; full plan", timeout=600, mem_gb=4),
    K("second_chance", "c08_n2", functions=PLANNER, bounds="n=2, ranks<4, flags any, capacity: any usize; full plan", timeout=1200, mem_gb=8),
    K("second_chance", "c08_n2_fullrank", functions=PLANNER, bounds="n=2, ranks: any u8, flags any, capacity: any usize; full plan", timeout=1200, mem_gb=8),
    K("second_chance", "c08_n3_evicted", functions=PLANNER, tiers=("thorough",),
      bounds="n=3, ranks<4, flags any, capacity: any usize; to_evict contents + both lengths (to_move_back contents not read)", timeout=2400, mem_gb=10),
    K("second_chance", "c08_n4_evicted", functions=PLANNER, tiers=("thorough",),
      bounds="n=4, ranks<4, flags any, capacity: any usize; to_evict contents + both lengths", timeout=5400, mem_gb=40),
    K("second_chance", "c08_sanity_twin", expect="fail", bounds="n=2", timeout=1200, mem_gb=8,
      notes="vacuity witness: same body ending in assert!(false) must be violated"),
],
    level="model_checking",
    outside=["n > 2 for the contents of to_move_back; n > 4 for to_evict (CBMC runs out of memory on Vec::drain's memmove with a symbolic length; measured)",
             "rank domains other than {0..3} / u8; the planner only uses ranks through Ord",
             "tie order is left free by the oracle (the statement says 'under some ordering of equally ranked entries')"],
    assumptions=["Kani/CBMC model of alloc::vec and core::slice::sort is faithful", "CaDiCaL verdicts"] + VEC_STUBS,
)
NOT_APPLICABLE = {}
