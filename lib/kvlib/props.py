"""Registry: which solver queries decide which property, at which tier."""

# Unwind rules shared by all harnesses that run crate code over KFS.
def fs_rules(n_sort=4, crate_bound=8, path_bound=40):
    return [
        (r"sort|smallsort|insert_tail|bidirectional_merge|heapsort|quicksort|partition", n_sort + 2),
        (r"memcmp|memchr|Components|rposition|position|trim|utf8|Utf8|from_utf8|CharSearcher|next_match|char_count", path_bound),
        (r"6kv_kfs", 48),
        (r"12kismet_cache", crate_bound),
    ]


class K:
    """One Kani harness = one bounded solver query over the compiled crate."""
    kind = "kani"

    def __init__(self, group, name, *, tiers=("quick", "thorough"), timeout=1200, mem_gb=8,
                 functions=(), bounds="", expect="pass", rules=None, notes="", weight=1,
                 panic_ok=()):
        self.group = group
        self.name = name
        self.tiers = tiers
        self.timeout = timeout
        self.mem_gb = mem_gb
        self.functions = list(functions)
        self.bounds = bounds
        self.expect = expect          # "pass" | "fail" (sanity twin: must come back violated)
        self.rules = rules
        self.notes = notes
        self.weight = weight
        self.panic_ok = tuple(panic_ok)   # documented panics (message substrings) tolerated


class M:
    """One MIR->SMT obligation set (engine M)."""
    kind = "smt"

    def __init__(self, name, *, tiers=("quick", "thorough"), functions=(), bounds="", notes=""):
        self.name = name
        self.tiers = tiers
        self.functions = list(functions)
        self.bounds = bounds
        self.notes = notes
        self.group = None


PROPS = {}


def prop(pid, units, **kw):
    PROPS[pid] = dict(units=units, **kw)


# ------------------------------------------------------------------------------------------
PLANNER = ["second_chance::Update::new", "alloc::slice::sort_by_cached_key (std, real)"]

VEC_STUBS = ["Vec::new -> Vec::with_capacity(8) (same abstract value)",
             "Vec::reserve -> assert!(capacity suffices) (growth path cut; failure => inconclusive)"]

prop("C08", [
    K("second_chance", "c08_n0", functions=PLANNER, bounds="n=0, capacity: any usize", timeout=600, mem_gb=4),
    K("second_chance", "c08_n1", functions=PLANNER, bounds="n=1, ranks<4, flags any, capacity: any usize; full plan", timeout=600, mem_gb=4),
    K("second_chance", "c08_n2", functions=PLANNER, bounds="n=2, ranks<4, flags any, capacity: any usize; full plan", timeout=1200, mem_gb=8),
    K("second_chance", "c08_n2_fullrank", functions=PLANNER, bounds="n=2, ranks: any u8, flags any, capacity: any usize; full plan", timeout=1200, mem_gb=8),
    K("second_chance", "c08_n3_evicted", functions=PLANNER, tiers=("thorough",),
      bounds="n=3, ranks<4, flags any, capacity: any usize; to_evict contents + both lengths (to_move_back contents not read)", timeout=2400, mem_gb=10),
    K("second_chance", "c08_n4_evicted", functions=PLANNER, tiers=("thorough",),
      bounds="n=4, ranks<4, flags any, capacity: any usize; to_evict contents + both lengths", timeout=5400, mem_gb=40),
    K("second_chance", "c08_spec_planner_n2", functions=["kv_kfs::spec_planner (the planner model used by prune harnesses)"], bounds="n=2", timeout=900, mem_gb=8),
    K("second_chance", "c08_spec_planner_n3", functions=["kv_kfs::spec_planner (the planner model used by prune harnesses)"], bounds="n=3", timeout=1800, mem_gb=12),
    K("second_chance", "c08_sanity_twin", expect="fail", bounds="n=2", timeout=1200, mem_gb=8,
      notes="vacuity witness: same body ending in assert!(false) must be violated"),
],
    level="model_checking",
    outside=["n > 2 for the contents of to_move_back; n > 4 for to_evict (CBMC runs out of memory on Vec::drain's memmove with a symbolic length; measured)",
             "rank domains other than {0..3} / u8; the planner only uses ranks through Ord",
             "tie order is left free by the oracle (the statement says 'under some ordering of equally ranked entries')"],
    assumptions=["Kani/CBMC model of alloc::vec and core::slice::sort is faithful", "CaDiCaL verdicts"] + VEC_STUBS,
)

RAW = ["raw_cache::insert_or_update", "raw_cache::insert_or_touch", "raw_cache::touch", "raw_cache::ensure_file_touched"]
prop("T00", [
    K("raw_ops", "kfs_selftest", functions=["KFS model self-test"], bounds="", timeout=600, rules=fs_rules()),
    K("raw_ops", "raw_insert_or_update_basic", functions=RAW, bounds="", timeout=900, rules=fs_rules()),
    K("raw_ops", "raw_insert_or_touch_basic", functions=RAW, bounds="", timeout=900, rules=fs_rules()),
    K("raw_ops", "raw_touch_basic", functions=RAW, bounds="", timeout=900, rules=fs_rules()),
    K("raw_ops", "raw_collect_ab_sub", functions=RAW, bounds="", timeout=900, rules=fs_rules()),
    K("raw_ops", "raw_collect_a_temp", functions=RAW, bounds="", timeout=900, rules=fs_rules()),
    K("raw_ops", "raw_prune_a_app_cap0", functions=RAW, bounds="", timeout=1200, rules=fs_rules(), mem_gb=16),
    K("raw_ops", "raw_prune_a_app_cap1", functions=RAW, bounds="", timeout=1200, rules=fs_rules(), mem_gb=16),
    K("raw_ops", "raw_collect_a_app", functions=RAW, bounds="", timeout=900, rules=fs_rules()),
    K("raw_ops", "raw_collect_empty_temp", functions=RAW, bounds="", timeout=900, rules=fs_rules()),
    K("raw_ops", "raw_apply_update_evict_a_moveback_b", functions=RAW, bounds="", timeout=900, rules=fs_rules()),
    K("raw_ops", "raw_ops_sanity_twin", functions=RAW, bounds="", timeout=900, rules=fs_rules(), expect="fail"),
], level="model_checking")

PLAIN = ["plain::Cache::{new,get,touch,set,put}", "cache_dir::CacheDir::{get,touch,set,put,maybe_cleanup,definitely_cleanup}",
         "cache_dir::{validate_file_name,cleanup_temporary_directory}", "trigger::PeriodicTrigger::{new,event}", "trigger::observe"] + RAW
prop("T01", [K("plain_ops", n, functions=PLAIN, timeout=1500, rules=fs_rules(), mem_gb=10,
               expect=("fail" if "twin" in n else "pass"))
             for n in ["plain_get_seq", "plain_get_env", "plain_get_fault", "plain_touch_seq", "plain_touch_env", "plain_touch_fault",
                       "plain_set_seq", "plain_put_seq", "plain_set_env", "plain_put_env", "plain_set_fault", "plain_put_fault",
                       "plain_ops_sanity_twin"]], level="model_checking")

prop("T02", [M("c12_mapping", functions=["multiplicative_hash::{reduce,mix,map}", "sharded::Cache::{shard_ids,other_shard_id}"], bounds="all u64 hashes, all usize n"),
             M("c10_trigger", functions=["trigger::PeriodicTrigger::new", "trigger::observe", "plain::Cache::new"], bounds="all periods/capacities")],
     level="model_checking")

CDIR = ["cache_dir::validate_file_name", "cache_dir::cleanup_temporary_directory", "std::path::PathBuf::push (real)"]
prop("T03", [K("cache_dir_ops", n, functions=CDIR, timeout=1200, rules=fs_rules(), mem_gb=8, expect=("fail" if "twin" in n else "pass"))
             for n in ["c16_validator", "c16_confinement", "c16_sanity_twin", "c02_cleanup_temp_by_age", "c02_cleanup_temp_missing_dir"]],
     level="model_checking")

SHARDED = ["sharded::Cache::{new,get,touch,set,put,shard,sort_by_load,other_shard_id,update_estimate,force_maintain_shard,maintain_random_other_shard}",
           "sharded::{format_id,Shard::{replace_shard,file_exists}}"] + PLAIN[1:]
prop("T04", [K("sharded_ops", n, functions=SHARDED, timeout=1800, rules=fs_rules(), mem_gb=10, expect=("fail" if "twin" in n else "pass"))
             for n in ["sharded_get_01", "sharded_get_10", "sharded_touch_01", "sharded_set_01_seq", "sharded_put_10_seq", "sharded_set_01_env",
                       "sharded_put_01_fault", "c12_new_clamps", "c12_format_id", "c12_constants", "sharded_ops_sanity_twin"]],
     level="model_checking")

STACK = ["stack::{CacheBuilder::*,Cache::{get,touch,ensure,get_or_update,set,put,set_temp_file,put_temp_file,maybe_sync_path},finalize_tempfile}",
         "readonly::{ReadOnlyCacheBuilder::*,ReadOnlyCache::{get,touch}}", "byte_equality_checker"] + SHARDED
STACK_NAMES = ['stack_get_w1r1_nock', 'stack_get_w1r2_bytes', 'stack_get_w0r2_bytes', 'stack_touch_w1r2', 'stack_ensure_w1r1_nock', 'stack_gou_w1r1_nock', 'stack_gou_w1r1_bytes', 'stack_gou_w0r1_nock', 'stack_gou_w2r1_nock', 'stack_set_w1r1', 'stack_put_w1r1', 'stack_set_temp_w1r1', 'stack_put_temp_w2r0', 'stack_set_w0r1', 'stack_put_temp_w0r1', 'stack_gou_w1r1_nosync', 'stack_gou_w1r1_fault', 'stack_set_temp_w1r1_fault', 'stack_set_w1r1_fault']
prop("T05", [K("stack_ops", n, functions=STACK, timeout=2400, rules=fs_rules(), mem_gb=12,
               panic_ok=("auto_sync failed, and failure semantics are unclear",) if "fault" in n else ())
             for n in STACK_NAMES] + [K("stack_ops", "stack_ops_sanity_twin", functions=STACK, timeout=2400, rules=fs_rules(), mem_gb=12, expect="fail")],
     level="model_checking")

NOT_APPLICABLE = {}
