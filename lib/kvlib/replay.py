"""Replay of solver counterexamples against the real code, before anything is reported.

Two mechanisms:
  * playback  — pure kernels (no filesystem): Kani's concrete playback turns the solver's
    assignment into an ordinary #[test] that calls the harness natively, i.e. the real crate
    function runs on the real std with the solver's inputs and the harness oracle panics.
  * scenario  — filesystem harnesses: the harness's symbolic choices are decoded into a
    scenario (JSON) executed by /verif/replay/kvreplay against the real library on the real
    filesystem (see scenario.py).
"""
import json
import os
import re
import subprocess
import time

from . import core
from .core import log

REPLAY_DIR = os.path.join(core.VERIF, "replays")


def extract_playback_test(out):
    """Pull the generated unit test out of `--concrete-playback=print` output."""
    m = re.search(r"```\s*\n(.*?#\[test\].*?)```", out, re.S)
    if m:
        return m.group(1)
    m = re.search(r"(/// Test generated for harness.*?\n}\n)", out, re.S)
    if m:
        return m.group(1)
    m = re.search(r"(#\[test\]\s*\n\s*fn kani_concrete_playback_\w+\(\) \{.*?\n\s*}\n)", out, re.S)
    return m.group(1) if m else None


def playback(pid, rec, scratch):
    u = rec["unit"]
    r = core.run_kani(scratch, u.name, group=u.group, timeout=u.timeout, mem_gb=u.mem_gb, unwind_rules=u.rules,
                      playback=True, extra_args=core.lean_args(u))
    test = extract_playback_test(r.log)
    if not test:
        return dict(reproduced=False, detail="no concrete playback test produced", mode="playback")
    tname = re.search(r"fn (kani_concrete_playback_\w+)", test).group(1)
    local = os.path.join(scratch.dir, "kv", u.group + ".rs")
    with open(local, "a") as f:
        f.write("\n" + test + "\n")
    results = {}
    # (Kani 0.68's `playback` subcommand has no --release: the harness body runs natively in the dev
    #  profile; filesystem scenarios are replayed in both profiles by scenario.py)
    for profile in ("dev",):
        cmd = ["cargo", "kani", "playback", "-Z", "concrete-playback", "--", tname]
        p = subprocess.run(cmd, cwd=scratch.dir, env=core.ENV, stdout=subprocess.PIPE,
                           stderr=subprocess.STDOUT, timeout=1200)
        out = p.stdout.decode(errors="replace")
        panicked = ("panicked at" in out) and ("test result: FAILED" in out or "FAILED" in out)
        msg = re.search(r"panicked at [^\n]*\n([^\n]*)", out)
        results[profile] = dict(failed=panicked, message=(msg.group(1) if msg else ""), tail=out[-800:])
    reproduced = all(v["failed"] for v in results.values())
    os.makedirs(os.path.join(REPLAY_DIR, pid), exist_ok=True)
    path = os.path.join(REPLAY_DIR, pid, u.name + ".json")
    doc = dict(property=pid, mode="playback", harness=u.name, group=u.group, test=test,
               failing_assertions=[c["desc"] for c in rec["cls"]["candidates"]],
               native=results, created=time.strftime("%Y-%m-%dT%H:%M:%S"))
    json.dump(doc, open(path, "w"), indent=1)
    return dict(reproduced=reproduced, mode="playback", path=path,
                signature=dict(harness=u.name, assertions=doc["failing_assertions"]),
                detail="; ".join("%s: %s" % (k, v["message"] or v["tail"][-200:]) for k, v in results.items()))


def replay_candidate(pid, rec, scratch, tier):
    u = rec["unit"]
    mode = getattr(u, "replay", None) or "playback"
    try:
        if mode == "playback":
            return playback(pid, rec, scratch)
        if mode == "native-eval":
            from . import smt
            return smt.native_replay(pid, rec, scratch)
        from . import scenario
        return scenario.replay(pid, rec, scratch)
    except Exception as e:
        log("replay failed:", repr(e))
        return dict(reproduced=False, detail="replay machinery error: %r" % (e,), mode=mode)


def match_known(known, pid, rp):
    """A known finding suppresses only the specific failing input class it names."""
    sig = rp.get("signature", {})
    for k in known.get("findings", []):
        if k.get("property") != pid:
            continue
        want = k.get("match", {})
        ok = True
        for key, val in want.items():
            have = sig.get(key)
            if isinstance(val, list):
                if not isinstance(have, list) or not all(any(v in h for h in have) for v in val):
                    ok = False
            else:
                if have is None or (str(val) not in str(have)):
                    ok = False
        if ok and want:
            return k
    return None


def replay_file(path):
    """bin/check Cxx --replay path : re-run a stored counterexample against the current tree."""
    doc = json.load(open(path))
    pid = doc["property"]
    if doc["mode"] == "playback":
        scratch = core.Scratch([doc["group"]])
        try:
            local = os.path.join(scratch.dir, "kv", doc["group"] + ".rs")
            with open(local, "a") as f:
                f.write("\n" + doc["test"] + "\n")
            tname = re.search(r"fn (kani_concrete_playback_\w+)", doc["test"]).group(1)
            p = subprocess.run(["cargo", "kani", "playback", "-Z", "concrete-playback", "--", tname],
                               cwd=scratch.dir, env=core.ENV, stdout=subprocess.PIPE, stderr=subprocess.STDOUT)
            out = p.stdout.decode(errors="replace")
            print(out[-3000:])
            failed = "panicked at" in out
        finally:
            scratch.cleanup()
        if failed:
            print("VIOLATION property=%s replay=%s" % (pid, path))
            return 1
        print("replay: counterexample no longer reproduces")
        return 0
    if doc["mode"] == "native-eval":
        from . import smt
        return smt.replay_native_eval(doc, path)
    if doc["mode"] == "native-scenario":
        from . import smt_props
        scratch = core.Scratch([])
        try:
            out = smt_props.native_requeue_chain(scratch)
            print(json.dumps(out, indent=1, default=str)[:1500])
            if out["reproduced"]:
                print("VIOLATION property=%s replay=%s" % (pid, path))
                return 1
            print("replay: counterexample no longer reproduces")
            return 0
        finally:
            scratch.cleanup()
    from . import scenario
    return scenario.replay_file(doc, path)
