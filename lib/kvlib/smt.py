"""Engine M, part 2: obligations over the MIR of the real crate, decided by z3 and cvc5.

The MIR is dumped from the scratch copy of /repo's current sources on every run
(cargo +nightly rustc -- -Zunpretty=mir), translated by mir.Executor (integer encoding), and
each obligation is sent to both solvers; `unsat` from both = holds for all values; `sat` = a
concrete counterexample (replayed natively); anything else (unknown, timeout, an `(error` line,
disagreement) = inconclusive.
"""
import os
import re
import subprocess
import time

from . import core, mir
from .core import log

Z3 = os.environ.get("KV_Z3", "/usr/bin/z3")
CVC5 = os.environ.get("KV_CVC5", "/usr/bin/cvc5")
SOLVER_TIMEOUT_S = int(os.environ.get("KV_SMT_TIMEOUT", "60"))


def dump_mir(scratch):
    if getattr(scratch, "_mir_text", None):
        return scratch._mir_text
    t0 = time.time()
    env = dict(core.ENV)
    td = os.path.join(scratch.dir, "td-mir")
    # make sure rustc actually re-emits (an up-to-date target prints nothing)
    os.utime(os.path.join(scratch.dir, "src", "lib.rs"))
    p = subprocess.run(["cargo", "+nightly", "rustc", "--offline", "--lib", "--target-dir", td, "--",
                        "-Zunpretty=mir", "-C", "debug-assertions=off", "-C", "overflow-checks=on"],
                       cwd=scratch.dir, env=env, stdout=subprocess.PIPE, stderr=subprocess.PIPE)
    out = p.stdout.decode(errors="replace")
    if p.returncode != 0 or "fn " not in out:
        raise RuntimeError("MIR dump failed: " + p.stderr.decode(errors="replace")[-1500:])
    log("MIR dump: %d lines in %.0fs" % (out.count("\n"), time.time() - t0))
    scratch._mir_text = out
    return out


class Obligation:
    def __init__(self, name, decls, assumptions, goal, functions=(), note="", expect="unsat", native=None, native_py=None):
        self.native_py = native_py  # fn(scratch) -> dict(reproduced, detail, signature): a native scenario run by Python
        self.expect = expect
        self.native = native      # (mount file, fn(model) -> rust test body) for replaying a model natively
        self.name = name
        self.decls = decls
        self.assumptions = assumptions
        self.goal = goal          # SMT term that must be valid under the assumptions
        self.functions = list(functions)
        self.note = note
        self.results = {}         # solver -> (status, seconds, model)

    def script(self, produce_model=True):
        s = ["(set-logic ALL)"]
        if produce_model:
            s.append("(set-option :produce-models true)")
        seen = set()
        for (n, sort) in self.decls:
            if n not in seen:
                seen.add(n)
                s.append("(declare-const %s %s)" % (n, sort))
        for a in self.assumptions:
            s.append("(assert %s)" % a)
        s.append("(assert (not %s))" % self.goal)
        s.append("(check-sat)")
        return "\n".join(s) + "\n"


def run_solver(cmd, script, names):
    t0 = time.time()
    try:
        p = subprocess.run(cmd, input=(script + "(get-model)\n").encode(), stdout=subprocess.PIPE,
                           stderr=subprocess.STDOUT, timeout=SOLVER_TIMEOUT_S + 10)
        out = p.stdout.decode(errors="replace")
    except subprocess.TimeoutExpired:
        return ("timeout", time.time() - t0, None)
    dt = time.time() - t0
    first = out.strip().splitlines()[0].strip() if out.strip() else ""
    if first == "unsat":
        return ("unsat", dt, None)
    if first == "sat":
        model = {}
        for m in re.finditer(r"\(define-fun (\S+) \(\) (?:Int|Bool)\s+((?:\(- \d+\))|\S+?)\)", out):
            v = m.group(2)
            mm = re.match(r"\(- (\d+)\)", v)
            model[m.group(1)] = -int(mm.group(1)) if mm else (v if v in ("true", "false") else int(v))
        return ("sat", dt, model)
    if "(error" in out:
        return ("error: " + out.strip()[:200], dt, None)
    return (first or "unknown", dt, None)


def decide(ob):
    script = ob.script()
    ob.results["z3"] = run_solver([Z3, "-in", "-T:%d" % SOLVER_TIMEOUT_S], script, ob.decls)
    ob.results["cvc5"] = run_solver([CVC5, "--lang", "smt2", "--tlimit=%d" % (SOLVER_TIMEOUT_S * 1000), "--nl-ext-tplanes"], script, ob.decls)
    sts = [r[0] for r in ob.results.values()]
    if "sat" in sts and "unsat" in sts:
        return "disagree"
    if "unsat" in sts and all(s in ("unsat", "unknown", "timeout") for s in sts):
        # one solver proving it while the other gives up is accepted only if none says sat
        return "unsat" if sts.count("unsat") == 2 else "unsat-single"
    if "sat" in sts:
        return "sat"
    return "unknown"


class MResult:
    def __init__(self, unit):
        self.unit = unit
        self.obs = []
        self.n_queries = 0
        self.n_unsat = 0
        self.n_witness = 0
        self.solver_s = 0.0
        self.cls = dict(verdict="held", reasons=[], candidates=[], other_props=[])
        self.models_used = []
        self.inlined = []
        self.wall_s = 0.0
        self.log = ""
        self.blocks = 0
        self.edges = 0

    def evidence(self):
        return dict(engine="mir-smt", unit=self.unit.name, bounds=self.unit.bounds, functions=self.unit.functions,
                    verdict=self.cls["verdict"],
                    obligations=[dict(name=o.name, note=o.note,
                                      solvers={k: dict(status=v[0], seconds=round(v[1], 3)) for k, v in o.results.items()})
                                 for o in self.obs],
                    std_models_used=self.models_used, crate_functions_translated=self.inlined,
                    symbolic_states=self.blocks, symbolic_transitions=self.edges,
                    reasons=self.cls["reasons"], wall_s=round(self.wall_s, 1))


def run_unit(u, scratch, pid):
    from . import smt_props
    res = MResult(u)
    t0 = time.time()
    b0, e0 = mir.COUNTERS["blocks"], mir.COUNTERS["edges"]
    try:
        text = dump_mir(scratch)
        funcs = mir.parse_mir(text)
        obs, meta = smt_props.UNITS[u.name](funcs, text)
        res.models_used = meta.get("models", [])
        res.inlined = meta.get("inlined", [])
        for ob in obs:
            verdict = decide(ob)
            res.obs.append(ob)
            res.n_queries += len(ob.results)
            res.solver_s += sum(r[1] for r in ob.results.values())
            log("  M %-48s %s  (%s)" % (ob.name, verdict, ", ".join("%s %.2fs" % (k, v[1]) for k, v in ob.results.items())))
            if ob.expect == "sat":
                if verdict == "sat":
                    res.n_witness += 1
                else:
                    if res.cls["verdict"] != "violated":
                        res.cls["verdict"] = "inconclusive"
                    res.cls["reasons"].append("vacuity witness %s is not satisfiable (%s)" % (ob.name, verdict))
                continue
            if verdict == "unsat":
                res.n_unsat += 1
            elif verdict == "unsat-single":
                res.n_unsat += 1
            elif verdict == "sat" and re.match(r"^(?:C\d+\+?)+: ", ob.name) and pid.startswith("C") and pid not in ob.name.split(":")[0].split("+"):
                # an obligation that belongs to other properties (shared unit): theirs to report
                res.cls.setdefault("other_props", []).append(ob.name)
            elif verdict == "sat":
                model = next(r[2] for r in ob.results.values() if r[0] == "sat")
                res.cls["candidates"].append(dict(kind="smt-model", desc="KV-%s: %s" % (pid, ob.name), model=model, obligation=ob.name, ob=ob))
                res.cls["verdict"] = "violated"
            else:
                if res.cls["verdict"] != "violated":
                    res.cls["verdict"] = "inconclusive"
                res.cls["reasons"].append("obligation %s: %s" % (ob.name, {k: v[0] for k, v in ob.results.items()}))
    except Exception as e:   # anything unexpected while translating or analysing: never a verdict
        import traceback
        res.cls["verdict"] = "inconclusive"
        res.cls["candidates"] = []
        res.cls["reasons"].append("MIR translation failed (the function's shape changed?): %r at %s" % (e, traceback.format_exc().strip().splitlines()[-2].strip()[:120]))
    res.wall_s = time.time() - t0
    res.blocks = mir.COUNTERS["blocks"] - b0
    res.edges = mir.COUNTERS["edges"] - e0
    return res


def native_replay(pid, rec, scratch):
    """Evaluate the real function natively on the solver's model (a generated #[test] in a child module)."""
    import json
    from . import replay as replay_mod
    cands = rec["cls"]["candidates"]
    os.makedirs(os.path.join(replay_mod.REPLAY_DIR, pid), exist_ok=True)
    path = os.path.join(replay_mod.REPLAY_DIR, pid, rec["unit"].name + ".json")
    for c in cands:
        ob = c.get("ob")
        if ob is not None and ob.native_py is not None:
            out = ob.native_py(scratch)
            doc = dict(property=pid, mode="native-scenario", unit=rec["unit"].name, obligation=ob.name, native=out)
            json.dump(doc, open(path, "w"), indent=1, default=str)
            return dict(reproduced=out["reproduced"], mode="native-scenario", path=path, detail=out["detail"][:500],
                        signature=dict(out.get("signature", {}), unit=rec["unit"].name, obligation=ob.name, assertions=[ob.name]))
        if ob is None or ob.native is None:
            continue
        mount, gen = ob.native
        model = c["model"] or {}
        body = gen(model)
        if body is None:
            continue
        test_file = os.path.join(scratch.dir, "kv_native_%d.rs" % abs(hash(ob.name)))
        open(test_file, "w").write("#![allow(dead_code)]\nuse super::*;\n%s\n#[test]\nfn kv_native_replay() {\n%s\n}\n" % (getattr(gen, "prelude", ""), body))
        target = os.path.join(scratch.dir, mount)
        src0 = open(target).read()
        open(target, "a").write('\n#[cfg(test)] #[path = "%s"] mod kv_native_replay_mod;\n' % test_file)
        results = {}
        try:
            for profile, flag in (("dev", []), ("release", ["--release"])):
                p = subprocess.run(["cargo", "test", "--offline", "--lib", "--target-dir", os.path.join(scratch.dir, "td-native")] + flag +
                                   ["kv_native_replay"], cwd=scratch.dir, env=core.ENV, stdout=subprocess.PIPE, stderr=subprocess.STDOUT, timeout=1800)
                out = p.stdout.decode(errors="replace")
                if "test result:" not in out:
                    return dict(reproduced=False, mode="native-eval", path=path, detail="native test did not build: " + out[-400:])
                results[profile] = dict(failed=("panicked at" in out and "FAILED" in out), tail=out[-600:])
        finally:
            open(target, "w").write(src0)
        reproduced = all(v["failed"] for v in results.values())
        doc = dict(property=pid, mode="native-eval", unit=rec["unit"].name, obligation=ob.name, model=model, test=body, mount=mount,
                   test_file=open(test_file).read(), native=results)
        json.dump(doc, open(path, "w"), indent=1)
        return dict(reproduced=reproduced, mode="native-eval", path=path, signature=dict(unit=rec["unit"].name, obligation=ob.name, assertions=[ob.name]),
                    detail="; ".join("%s: %s" % (k, "panicked" if v["failed"] else "passed") for k, v in results.items()))
    return dict(reproduced=False, mode="native-eval", path=path, detail="no native evaluation recipe for: %s" % ", ".join(c.get("obligation", "?") for c in cands))


def replay_native_eval(doc, path):
    """bin/check Cxx --replay FILE for engine-M counterexamples: re-run the stored native test on the current tree."""
    scratch = core.Scratch([])
    try:
        test_file = os.path.join(scratch.dir, "kv_native_replay.rs")
        open(test_file, "w").write(doc["test_file"])
        target = os.path.join(scratch.dir, doc["mount"])
        open(target, "a").write('\n#[cfg(test)] #[path = "%s"] mod kv_native_replay_mod;\n' % test_file)
        p = subprocess.run(["cargo", "test", "--offline", "--lib", "--target-dir", os.path.join(scratch.dir, "td-native"), "kv_native_replay"],
                           cwd=scratch.dir, env=core.ENV, stdout=subprocess.PIPE, stderr=subprocess.STDOUT, timeout=1800)
        out = p.stdout.decode(errors="replace")
        print(out[-1500:])
        if "test result:" not in out:
            print("replay: native test did not build")
            return 2
        if "panicked at" in out and "FAILED" in out:
            print("VIOLATION property=%s replay=%s" % (doc["property"], path))
            return 1
        print("replay: counterexample no longer reproduces")
        return 0
    finally:
        scratch.cleanup()
