"""Engine M placeholder (filled in below)."""


def run_unit(u, scratch, pid):
    raise NotImplementedError
